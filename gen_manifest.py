#!/usr/bin/env python3
"""Regenerates MANIFEST.json from the table below (kept in one place so it stays valid)."""
import json, os
HERE = os.path.dirname(os.path.abspath(__file__))

TECH = 'symbolic execution of the real functions (symx: operator-overloading proxies over z3) + SMT obligations per path; sat models replayed natively'

CHECKS = {
 'C17': dict(
   text='Loop-free symbolic execution of Ammo.get_velocity_for_temp / calc_powder_sens / TrajectoryCalc._init_trajectory with all magnitudes symbolic: '
        'z3 decides linearity, anchoring, calibration round trip (both orderings) and the launch velocity for every value in the stated ranges and every unit combination.',
   note='Floats are modelled as reals (DESIGN 2.3); ranges: mv in [1e-3,1e5] m/s, temperatures [-200,1000] C, modifier [-10,10]. '
        'Outside: second measurements with opposite signs of dv and dT (not representable by the unsigned modifier). Trusted: z3, the symx proxies (validated by native replay).',
   ref='3/C17'),
}

CHECKS['C06'] = dict(
   text='Loop-free symbolic execution of to_raw/from_raw of all units the real enum declares, on one symbolic value: z3 (QF_LRA) compares every ordered pair with '
        'an independent table of exact SI rationals (1e-6 relative), and proves round trips and A->B->C = A->C under the standard floating point rounding model '
        '(every symbolic operation gets its own error term), for all values in the stated magnitude range.',
   note='Factor claims: floats as reals. Round trip / composition: standard model fl(x op y)=(x op y)(1+d), |d|<=2^-53, no overflow/underflow (|v| in [1e-100,1e100]); bounds 16 / 32 * 2^-53 '
        '(temperatures 24 / 32 * 2^-53 of |v|+600). Angles strictly inside one turn (|rad| <= 6.28). Outside: round trips through the two tangent-based units; NaN/inf. '
        'Trusted: ref/si.py table, z3.',
   ref='3/C06')

CHECKS['C13'] = dict(
   text='Inductive step on the real quantity classes: from an arbitrary state (symbolic base-unit magnitude x every display unit) ONE real operation runs '
        '(every operation named by the property, ~100 per dimension incl. passing the quantity to constructors) and the magnitude term and every get_in(u) term are '
        'the same terms afterwards - hence any finite history; comparisons/hash on symbolic magnitudes are decided by z3; every foreign-unit read raises.',
   note='hash() is modelled as an unknown injective function of the hashed structure (equal hashes <=> equal hashed tuples); natively the real hash() is used in replay. '
        'Angular magnitudes in (-1.5,1.5) rad and temperatures above -459 F so that reads do not raise. Formatting (str/repr/round) returns placeholders. NaN/inf outside.',
   ref='3/C13')
CHECKS['C19'] = dict(
   text='Loop-free symbolic execution of Sight.__init__/get_adjustment/_adjust_sfp_reticle_steps/get_trajectory_adjustment with symbolic click sizes (9 units, bare and explicit), '
        'distances, magnification and corrections: click counts are compared by z3 with correction/(effective click) per focal plane for all values; constructor rejections on symbolic non-positive clicks.',
   note='Floats as reals, 1e-9 relative; tangent-based click units only for nominal and effective click <= 1e-3 rad at 1e-6 (small-angle enclosures of atan/tan). '
        'Effective SFP click below one turn. An explicit zero-length Distance as SFP calibration distance is not required to be rejected (only None / bare 0).',
   ref='3/C19')

CHECKS['C16'] = dict(
   text='Real HitResult.danger_space on fully symbolic trajectories (N real rows with symbolic strictly increasing distances and arbitrary symbolic drops), symbolic request and target height: '
        'every path of the scans is explored (loops unroll to N) and z3 decides bracketing, the within-half-height claim for every row between the bounds, the bound conditions, monotonicity in the '
        'height (second call) and the error paths, for all values.',
   note='Bound: N <= 5 rows quick / 7 thorough (longer trajectories outside). The request and the height are compared as the real unit code reads them (unit factors are C06). '
        'Floats as reals (order-only code). The trajectory need not come from the solver: any row list is covered.',
   ref='3/C16')
CHECKS['C20'] = dict(
   text='Real helpers.* (through the C implementation of bisect, which only uses rich comparisons on the symbolic rows) and HitResult.index_at_distance/get_at_distance on symbolic trajectories with '
        'non-decreasing times/distances (repeats allowed): on every path the result equals the sequential-scan / argmin oracle written in the harness; sentinels and errors when nothing qualifies.',
   note='Bound: N = 0..5 rows quick / 0..8 thorough. Apex helper under the documented strict single-peak assumption. `e.time - time >= 0` treated as `e.time >= time` (finite doubles). '
        'Distance queries compare the values the real unit code reports in the query unit.',
   ref='3/C20')

CHECKS['C09'] = dict(
   text='Real calculate_curve + _calculate_by_curve_and_mach_list on a symbolic Mach number for the 9 shipped tables (every path of the binary search; exact rational Lagrange oracle; node values, positivity, 5% of the chord) '
        'and on fully symbolic custom tables (symbolic nodes and CDs: parabola identity as a cleared polynomial identity, selection observed through a pass-through list); drag_by_mach with symbolic BC; table structure and pinned digest.',
   note='Mach in [0,10] for shipped tables; custom tables n <= 5 quick / 7 thorough nodes. Floats as reals, 1e-9 absolute against exact parabolas. "Published tables" = SHA-256 of the pinned tables (ref/tables.json); '
        'no publication is available offline. rho_std = 0.076474 lb/ft^3, constant at 1e-5 relative.',
   ref='3/C09')

CHECKS['C05'] = dict(
   text='Loop-free symbolic execution of the real create_trajectory_row, spin_drift and calc_stability_coefficient on fully symbolic arguments; every derived column is compared by z3 with the documented formula '
        'written independently in the harness (transcendentals summarised; same summary on an independently written argument).',
   note='All values in the stated boxes (look angle in (-1.5,1.5) rad, speed > 0). Energy vs 1/2 m v^2 with g0 = 9.80665/0.3048 at 2e-4 relative (code constant 450400 is 8.1e-5 off). '
        'That the solver loop passes the row\'s own state into create_trajectory_row is decided in C01/C03, not here. libm accuracy outside.',
   ref='3/C05')
CHECKS['C14'] = dict(
   text='Real DragModelMultiBC / linear_interpolation / BCPoint / make_data_points on symbolic BC points in every relative order (the real sort forks on symbolic keys) and symbolic tables given as dict list or as a donor model\'s data points: '
        'effective BC at every node vs an independent clamped piecewise-linear oracle, inputs and donor intact (same terms), second build identical, single point = plain model.',
   note='Bounds: (m BC points, n table nodes) up to (3,2)/(2,3) quick, (4,2)/(3,3)/(2,4) thorough; linear_interpolation alone k <= 4 / 6 points. Distinct BC-point Mach numbers. '
        'The in-place reordering of the caller\'s bc_points LIST is not treated as altering the data points. Floats as reals (1e-9).',
   ref='3/C14')

CHECKS['C07'] = dict(
   text='For 39 float-or-quantity parameters and every unit of the slot dimension as preferred unit, the object built from a SYMBOLIC bare number is compared field by field (terms) with the one built from the explicit quantity; '
        'the engine forks where the code branches on the number, so z3 finds which numbers (e.g. 0) are treated specially. Explicit quantities with symbolic magnitudes under two preferred units and the three presets give identical terms.',
   note='Bare numbers over the stated ranges incl. 0 and negatives (pressures >= 0, |angles| <= 6). Calculator entry points: the solver object is replaced by a recorder, so what is decided is the coercion of the argument, not the trajectory '
        '(whole-trajectory bit-identity under different preferences is covered on carriers in C10/C11 harnesses when present). Display units of derived fields may differ; magnitudes may not.',
   ref='3/C07')

CHECKS['C08'] = dict(
   text='Real Atmo/Vacuum methods on symbolic altitude, temperature, pressure, humidity with pow/sqrt/exp summarised by sound axioms: z3 decides the ISA temperature (linear, 1e-4 for all altitudes), the speed-of-sound constant, '
        'base and exponent of the barometric formula, dry-air density as a rational function vs the ideal gas law, the station shortcut and far-field structure, humidity normalisation/rejection, vacuum zero density, and monotonicity.',
   note='PARTIAL: the 1e-4 agreement of pow(base, exponent) itself (standard pressure, density aloft, station-vs-standard-station pressure) is reduced to decided epsilons on base and exponent plus the TRUSTED calculus lemma '
        '|d ln P| <= E|db|/b + |ln b||dE| (budget checked by the solver); moist-air monotonicity in temperature and pressure is outside (dry air decided; humidity decided with the saturation pressure enclosed in [0,20000] Pa). '
        'ISA constants: T0 288.15 K, L -6.5 K/km, P0 1013.25 hPa, R* 8.31432, M 0.0289644, g0 9.80665. Temperatures above the model floor (-130 F).',
   ref='3/C08')

CHECKS['C03'] = dict(
   text='(I) one real should_record call from an arbitrary filter state under the representation invariant: a row is emitted iff the next record distance was reached, it is the exact linear interpolation there, invariant again - hence every shot and length. '
        '(P) the real Calculator.fire on carriers with concrete physics and SYMBOLIC range and record step (quantity in ft/m/yd or bare): every cell of the (range, step) plane; row count, row distance = k*step as terms, monotonicity, muzzle row, 11 rows by default, time-step spacing.',
   note='Carriers A (.308 G7), B (G1 1250 fps), C (G1 930 m/s at 30 deg) with coarse integration steps; horizon K <= 12 (quick) / 24 (thorough) integration steps (default-step runs K ~ 22-26). "One integration step" beyond the range = the configured step (max_step/2). '
        'Record arithmetic over the reals. KNOWN FINDING: a step larger than the range yields a padding row (see known_findings.json). Outside: record steps smaller than the integration step; shots that stop moving down-range.',
   ref='3/C03')
CHECKS['C12'] = dict(
   text='Real Shot.winds (sort on symbolic keys forks over every ordering) + real _WindSock driven exactly as _integrate drives it, with SYMBOLIC until-distances (any order, duplicates) and symbolic query positions: the vector in force equals the first sorted segment whose until-distance exceeds x, '
        'zero beyond the last; Wind.vector sign conventions and left-right mirroring on symbolic speed/direction.',
   note='Sock: n <= 3 winds quick / 4 thorough, n+2 queries, vectors identified by concrete distinct speeds. Carriers (C12.fire): concrete wind vectors with SYMBOLIC until-distances in any order - input-order independence (ties excluded: with equal until-distances the statement does not determine which wind acts), '
        'segment in force at every integration step, causality (rows up to the first segment end unchanged when later segments are replaced), zero speed = no wind, left-right mirror negates windage only (twist-0 carrier), all bit-for-bit per cell; K <= 12 / 24 steps. '
        'Head/tail-wind effect on drop and time of flight: three concrete runs per carrier (TEST strength, C12.headtail).',
   ref='3/C12')

CHECKS['C01'] = dict(
   text='PARTIAL. Inductive step: ONE real iteration of TrajectoryCalc._integrate from an arbitrary state (all reals symbolic; atmosphere, drag and wind as arbitrary recorded answers) equals the semi-implicit Euler step of the stated equations of motion - '
        'velocity and position updates, atmosphere queried at alt0+y, drag at |v-w|/a, launch state, air advance <= step/2 - for every state (z3, polynomial identities); launch-angle mapping; N real vacuum iterations reproduce the parabola plus the exact discretisation term g*sum(dt^2)/2.',
   note='OUTSIDE (not decidable by bounded SMT here): convergence of reported values to the exact ODE solution under step refinement and the first-order error bound at the default step - only consistency of the step (local truncation) is decided, which with stability gives convergence by a textbook theorem this machinery does not prove. '
        'Unwind bound 1 iteration (step) / N <= 4 quick, 8 thorough (vacuum). Floats as reals. The drag law and atmosphere actually plugged in are C09/C08; wind selection is C12.',
   ref='3/C01')

CHECKS['C02'] = dict(
   text='PARTIAL. The real zero_angle / barrel_elevation_for_target / set_weapon_zero with the trajectory replaced by an ARBITRARY trajectory reported with _integrate\'s contract (symbolic height per call): iteration contract for every outcome '
        '(accepted elevation is the one last fired and within accuracy; else ZeroFindingError with last elevation, stored zero untouched; <= cMaxIterations); geometry lemma on a locally straight trajectory (accepted => within accuracy + step*relative slope AT the aim point); '
        'the code\'s update rule is extracted symbolically and z3 proves it contracts on the straight-line limit for all sight lines in (-60,60) deg.',
   note='OUTSIDE: convergence of the iteration for real drag trajectories (only the straight-line lemma; C02.witness replays 8 (quick) / 22 (thorough) inclined zeroings through the public API at TEST strength). '
        'Iteration cap 1..3 quick / 1..5 thorough (complete unwinding for those caps). The _integrate stub honours the contract decided in C03. Look angle via the exact half-angle parametrisation of sin/cos.',
   ref='3/C02')
CHECKS['C04'] = dict(
   text='PARTIAL. (I) one real _integrate iteration from an arbitrary state with SYMBOLIC limits: RangeError raised iff the post-step state violates a limit, reason by precedence velocity > drop > altitude, last row = post-step state, last_distance is the last row\'s. '
        '(P) carriers with concrete physics and symbolic limits: cells = which step trips which limit; rows before the last are bit-identical to the unlimited run and respect all limits.',
   note='OUTSIDE: "every computation terminates" (liveness over an unbounded floating point loop) - only dt > 0 per step (C01.step) and bounded carrier horizons K <= 12 quick / 24 thorough (a path exceeding 4K steps is cut and reported). '
        'Interpolated rows may undershoot the velocity limit by the chord error: 1e-3 relative tolerance for rows before the last.',
   ref='3/C04')
CHECKS['C15'] = dict(
   text='The real _TrajectoryDataFilter (all flags) and setup_seen_zero fed K SYMBOLIC integration points: ZERO_UP / ZERO_DOWN exactly at the first upward / subsequent downward crossing (once each), MACH exactly when speed/sound falls through 1, flagged point yields a row with the bit, '
        'row within the step of the crossing, time order. Carriers with symbolic range/step: flag words of the integration points and returned rows match the crossings; HitResult.zeros().',
   note='K = 4 points quick / 4..6 thorough (2 / 3 when range rows interleave); look angle in {0, +-0.35 rad} (concrete, so the sight line is linear in x). Assumes a trajectory that starts below the line with the barrel pointing below it never rises above it (concavity). '
        'Carriers A (sight above/below bore, level and 20 deg), B (Mach crossing), horizon K <= 12 / 24 steps.',
   ref='3/C15')

CHECKS['C10'] = dict(
   text='Inductive frame: a calculator whose solver object carries ARBITRARY residual state (every instance attribute symbolic / poisoned) and changed process globals runs one real public operation on a carrier; result bit-identical to a fresh calculator and free of garbage symbols - '
        'hence every finite history, including ones with raising operations. Deep snapshots of all argument objects before/after each operation with symbolic range/step (every request cell). Write footprint confined to the own solver object.',
   note='PARTIAL for threads: interleavings are NOT enumerated; the claim rests on disjoint write footprints (decided by snapshot diff of every pre-existing reachable object and the package globals) plus CPython attribute-store atomicity; a 3-thread run vs serial is test strength. '
        'Carriers A, B (quick) + C, inclined A (thorough). Residual state = the solver object\'s instance attributes as collected from a used calculator. Zero/elevation operations run with a concrete distance (symbolic distance would make the physics symbolic).',
   ref='3/C10')
CHECKS['C11'] = dict(
   text='Carriers with concrete physics and SYMBOLIC range, record step and time step, plain and extra in the same cell: the integration points seen by a pass-through spy are a bit-identical prefix of one reference sequence per carrier; every recorded range row equals the linear interpolation '
        'of the two bracketing reference points at its distance (terms in the request), time/event rows are reference points; extra output = plain rows (same terms) + event rows.',
   note='Horizon K <= 12 quick / 18 thorough integration steps; carriers A (two winds), B, C [thorough + more]. Interpolation compared over the reals (identical terms). For shots outside the carrier list the statement follows from C03.filter + C01.step (the step never reads the filter).',
   ref='3/C11')

CHECKS['C18'] = dict(
   text='Config: create_interface_config / Calculator on subsets of the 8 settings with symbolic values (given terms used, documented defaults, locality of two calculators), the global default-step setter over all op sequences (set / reset / create / set non-positive) with symbolic values. '
        'Names: every enum name and alias as a SYMBOLIC structured string (blanks, any letter case per character; value strings with a symbolic number prefix constrained by the code\'s own number pattern in z3\'s regex theory) through the real _parse_unit / PreferredUnits.set / _parse_value; '
        'unknown names: a symbolic string forked against every known key by z3 string equality queries - none selected.',
   note='That settings GOVERN the computation is decided on symbolic Config values where they are used: C01.step (air advance <= max_step/2, gravity), C04.reason (limits), C02.loop (accuracy, cap). Strings: blanks{0,2}, ASCII case mapping only (full Unicode lower() outside), '
        'numbers <= 6 chars; strip/lower are modelled structurally on the parts of the symbolic string (a case variant of x lowers to x) - the model is validated by replaying solver-chosen spellings natively. TOML reading (tomllib) outside: the loader hands the strings to PreferredUnits.set. '
        'Quick: enum names + first alias per unit; thorough: all ~200 spellings; unknown strings of 1..3 / 1..5 characters.',
   ref='3/C18')

# harnesses added while testing against seeded changes (DESIGN 11); appended to level_note
ALSO = {
 'C01': 'Also: C01.launch (cant of either sign, hold-over); C01.vacuum_fire - the real Vacuum atmosphere with segmented winds and coarse/fine record steps on carriers vs the closed-form parabola; '
        'C01.drag_in_loop - every drag value the loop obtains vs the stateless table look-up on a carrier whose Mach number rises again across a table node.',
 'C02': 'C02.loop runs a failed search first on the same calculator (no state carried over); C02.witness zeroes through winds with a segment boundary short of the target (TEST strength).',
 'C03': 'Also carriers with head/tail/30 mph tail wind, lofted slow shot (D), inclined (default step too), canted to either side; obligation that the integration reaches the range. '
        'C03.float_witness: default-step cards in true doubles for a grid of ranges (TEST strength; the only harness that sees rounding of the accumulated record distance).',
 'C04': 'Also: carrier fired backwards (95 deg) for last_distance; the last row violates the limit the reason names.',
 'C05': 'Also under metric preferences; C05.reuse: a second shot with other (symbolic) bullet parameters on the SAME solver object gives the columns of a fresh one.',
 'C06': 'Also: unit_value/get_in after re-display (<<) equal the factor-table values.',
 'C07': 'C07.compute: Unit.__call__ / PreferredUnits.<slot>(quantity) keep the magnitude; C07.globals: defaults are read when used, not frozen at import or first use.',
 'C08': 'C08.bare_altitude: bare altitude numbers are read in the preferred distance unit (every unit).',
 'C09': 'Also: dict rows in either key order; C09.bc re-initialises one solver object for a second shot with another BC/table (no stale drag data).',
 'C10': 'Also: C10.result_object (results of earlier calls are not changed by later ones; shared Atmo between shots), carrier without bullet dimensions, climbing carrier, zero requests that raise, aliasing of the old zero quantity.',
 'C11': 'Also: record steps finer than the integration step (0.5/0.4/0.13 of it), nothing returned besides the recorded rows (except the documented padding row).',
 'C12': 'Also: calm segment after a windy one, winds assigned through the setter, Wind objects edited in place between shots, default wind not shared between shots, single wind, inclined sight line (until-distance is down-range distance).',
 'C13': 'Also: set_weapon_zero through a recording solver as one of the operations.',
 'C14': 'C14.bcpoint: BCPoint from a velocity in every unit, bare and explicit, again after the preferred unit changed; rejections.',
 'C15': 'Also: sight below bore / barrel pointing below the line from above (above_down), 30 mph head wind on the Mach carrier (air-relative Mach), integration reaches the range.',
 'C16': 'C16.noextra: a result computed without extra data rejects the query.',
 'C17': 'Also: powder temperature as a bare number (0 and negatives included) under every preferred temperature unit; C17.reuse: one solver object and the same Ammo changed in place (calibrated, enabled, velocity reassigned) between initialisations.',
 'C18': 'Quick includes capitalised and blank-padded aliases; calculators created with and without non-step settings inside the global-step op sequences.',
 'C19': 'Also: corrections given in every angular unit, calibration distance and scale factor re-displayed in another unit before use, row-based adjustment with symbolic look angle (down-range distance, not sight-line distance).',
 'C20': 'Apex: also with a row flagged ZERO_DOWN before/after the peak.',
}

ROUND4 = {'C01': 'Round 4: the drag obtained in the loop is also checked against the TABLE itself (chord / three-point parabolas written in the harness), on a carrier with a measured table that does not start at Mach 0, and again after the BC was changed in place on the used calculator.',
 'C02': 'Round 4: the zero distance given as a quantity in several units or as a BARE number under a preferred unit set after import.',
 'C03': 'Round 4: range and record step given in independent forms (quantity in ft/m/yd or bare) under a preferred unit of the cell.',
 'C04': 'Round 4: symbolic look angle in the one-step world; inclined sight lines on carriers; no limit in reach with SYMBOLIC range under tail / head winds (the returned trajectory reaches the range).',
 'C05': 'Round 4: C05.spin goes through the real _init_trajectory; C05.mach_column: N real iterations in a vacuum / one in air - the atmosphere is asked once per step at the current altitude and the Mach column of the row is the speed over that answer.',
 'C06': 'Round 4: every pair is read through all public entry points (>>, get_in, <<, <<=, convert, Unit(q), after an earlier unit_value read) and the reported unit label is the requested one.',
 'C07': 'Round 4: C07.again - 12 methods called on ONE receiver: an explicit quantity, then the same bare number under two different preferred units; C07.compute with a wind whose until-distance carries its own unit label and an inch/kelvin assignment.',
 'C08': 'Round 4: C08.station_inputs - stations built through the constructor from quantities or BARE numbers (0 and negatives included) report what they were given and are ordered in density / speed of sound; a Vacuum stays a vacuum after humidity assignment and update_density_ratio().',
 'C09': 'Round 4: C09.sequence - three successive drag_by_mach look-ups at symbolic Mach numbers in any order on one solver object.',
 'C10': 'Round 4: C10.kept_results (returned and partial trajectories kept by the caller are untouched by later calls on the same calculator); a custom table that does not start at Mach 0 among the snapshotted arguments.',
 'C11': 'Round 4: rows looked up through get_at_distance in plain and extra results; C11.accessor on symbolic rows with an event row arbitrarily close before a range row. Thorough horizon reduced to K = 18 (24 ran past the unit budget).',
 'C12': 'Round 4: until-distances carrying different unit labels (assigned after construction / built under different preferred units); the same winds again on a used calculator.',
 'C13': 'Round 4: foreign-unit reads after other quantities (same magnitude, foreign and own dimension) were read legitimately.',
 'C15': 'Round 4: carrier H (rated supersonic, launched subsonic through powder sensitivity).',
 'C16': 'Round 4: one result object asked five questions in a row on the shorter trajectories (taller target: all claims again; same question same answer; another range in between); sight-line distance column independent of the distance column; symbolic look angle argument.',
 'C17': 'Round 4: the launch velocity in force whenever trajectory() or zero_angle() enters the integration (recorder in place of _integrate).',
 'C19': 'Round 4: another sight with other click sizes is asked first, and the same sight again after a question at another distance / magnification.',
 'C20': 'Round 4: the danger-space query centres on the same first row; sight-line distance column independent of the distance column.'}

NOT_YET = {}

ROUND5 = {'C01': 'Round 5: C01.step_in_loop - every integration step the real loop takes on carriers (real atmosphere, stateless drag look-up, wind of the segment containing the start of the step, calm beyond the last) recomputed from its recorded start state; symbolic range.',
 'C02': 'Round 5: C02.reach (TEST strength) - a slow projectile zeroed up to near its maximum range on level and inclined sight lines, precondition established natively; five inputs on which the search does not converge although the target is within reach are KNOWN FINDINGS (known_findings.json), any other failing input is reported.',
 'C03': 'Round 5: the carrier\'s calculator has produced a card with extra data and a time step before the card that is checked.',
 'C04': 'Round 5: C04.history - symbolic-range fire on a calculator with tight limits after an earlier failed / successful zeroing or a fire cut short, compared with a fresh calculator of the same configuration.',
 'C05': 'Round 5: C05.spin with powder sensitivity in force (the Miller formula sees the launch velocity). Round 6: C05.mach_column_cut_short - the terminal row of a RangeError path in the one-step world.',
 'C06': 'Round 5: a conversion entry point that raises on a valid unit is reported (operation_raised) instead of stopping the run.',
 'C07': 'Round 5: the global step given as a bare number, then the preferred unit changed, then a calculator created; no private global of the package is read or written by the harnesses.',
 'C08': 'Round 5: C08.standard_twice - the standard atmosphere requested again (icao / standard / default of a new Shot) after the first object was modified by its owner. Round 6: far-from-station prediction asked before and after a humidity change; a refused humidity assignment changes nothing (atmosphere and vacuum).',
 'C09': 'Round 5: C09.shared_points - one list of DragDataPoint objects used for a plain model, a multi-BC model and a plain model again.',
 'C10': 'Round 5: C10.footprint also snapshots the scalar class attributes of every class of the package, builds an unrelated vacuum shot / modified standard atmosphere / multi-BC model along the way, and its threads fire different shots.',
 'C11': 'Round 5: with a time step short enough to put clock rows between distance rows, the rows recorded by distance are exactly those of the request without a time step.',
 'C12': 'Round 5: two of the winds given are the same wind over different stretches. Round 6: until-distances as bare numbers (0 included).',
 'C13': 'Round 5: the foreign unit CALLED on the quantity (Unit.X(q), PreferredUnits.<slot>(q)) and read back. Round 6: C13.constructed - quantities built by the real constructors (angles up to three turns) read before and after display-unit round trips.',
 'C14': 'Round 5: quick tier includes shapes (4,2) and (3,3): several BC points inside one table interval. Round 6: a second model at the same Mach numbers with other BC values; BC points at Mach 0.',
 'C15': 'Round 5: the calculator has served a supersonic shot just before; the events-only request (record step 0) through TrajectoryCalc.trajectory reports the same events within the range.',
 'C16': 'Round 5: pure event rows (no RANGE bit) at every position; C16.successive - six result objects created, asked and released in turn (list free-list drained so that the address is reused). Round 6: rows of the first answer re-displayed in other units before the question is repeated; C16.float_witness (TEST strength): requests exactly equal to row distances in true doubles.',
 'C17': 'Round 5: stated velocity and modifier re-stated on the same Ammo while sensitivity is enabled. Round 6: launch velocity with a Vacuum built with an air temperature.',
 'C18': 'Round 5: unit names through the configuration-file door (real _load_config, TOML reader stubbed to return the symbolic spelling); calculators first touched after later sets / resets of the global step; precompiled re.Pattern globals are wrapped by the string stub.',
 'C19': 'Round 5: target distance exactly 0 for FFP / LWIR.',
 'C20': 'Round 5: the same result object asked again after the preferred distance unit changed.'}


def main():
    props = [json.loads(l)['id'] for l in open(os.path.join(HERE, 'properties.jsonl'))]
    checks = []
    for pid in props:
        if pid not in CHECKS:
            continue
        c = CHECKS[pid]
        checks.append({
            'property_id': pid,
            'quick_cmd': f'./check {pid} --tier quick',
            'thorough_cmd': f'./check {pid} --tier thorough',
            'evidence_file': f'evidence/{pid}.json',
            'replay_cmd_template': f'./check {pid} --replay {{path}}',
            'engine': 'symx',
            'level_claimed': {'category': 'other', 'text': c['text'], 'design_ref': c['ref']},
            'level_note': c['note'] + (' ' + ALSO[pid] if pid in ALSO else '') + (' ' + ROUND4[pid] if pid in ROUND4 else '') + (' ' + ROUND5[pid] if pid in ROUND5 else ''),
            'technique': c.get('technique', TECH),
        })
    na = []
    for pid in props:
        if pid not in CHECKS:
            na.append({'property_id': pid, 'reason': NOT_YET.get(pid, 'harness not built yet in this revision (planned, see DESIGN.md section 3); no claim is made')})
    m = {
        'version': 1,
        'setup_cmd': './setup.sh',
        'hooks': {'guard': 'PYBC_VERIF', 'enable': 'no source hooks: all instrumentation is module-global rebinding from the harness process',
                  'baseline_off_cmd': 'cd /repo && /venv/bin/python -m pytest -ra -q -p no:cacheprovider --timeout=900 --continue-on-collection-errors',
                  'source_commits': [], 'add_only': True},
        'engines': [{'name': 'symx', 'path': 'symx/', 'serves_properties': sorted(CHECKS),
                     'kind_free_text': 'symbolic execution of the real Python functions by proxy values (SymFloat/SymBool/SymInt/SymStr) over z3 5.1; DFS path exploration by re-execution; obligations per path decided by z3 (cvc5 cross-check in thorough); native replay of every sat model'}],
        'checks': checks,
        'not_applicable': na,
        'notes': 'Exit codes: 0 held on everything explored (KNOWN-FINDING lines possible); 1 VIOLATION (natively reproduced); 3 harness error / inconclusive (undecided obligation, non-reproducing candidate, vacuous harness). known_findings.json lists recorded and fixed defects.',
    }
    with open(os.path.join(HERE, 'MANIFEST.json'), 'w') as f:
        json.dump(m, f, indent=1)
    print('checks:', [c['property_id'] for c in checks], 'n/a:', len(na))

if __name__ == '__main__':
    main()
