#!/usr/bin/env python
"""CLI: ./check <property> [--tier quick|thorough] [--replay file] [--only harness] [--jobs n]"""
import argparse
import os
import sys
import warnings

HERE = os.path.dirname(os.path.abspath(__file__))
sys.path.insert(0, HERE)
REPO = os.environ.get('PYBC_REPO', '/repo')
sys.path.insert(0, REPO)           # the working tree of /repo, imported fresh on every run
os.environ.setdefault('PYBC_VERIF', '1')
sys.dont_write_bytecode = True
warnings.filterwarnings('ignore', category=UserWarning)


def main():
    ap = argparse.ArgumentParser()
    ap.add_argument('prop')
    ap.add_argument('--tier', default=os.environ.get('VERIF_TIER', 'quick'), choices=['quick', 'thorough'])
    ap.add_argument('--replay')
    ap.add_argument('--only')
    ap.add_argument('--jobs', type=int, default=0)
    a = ap.parse_args()
    os.chdir(HERE)
    from symx import runner
    import py_ballisticcalc
    if not os.path.realpath(py_ballisticcalc.__file__).startswith(os.path.realpath(REPO) + os.sep):
        print(f'HARNESS-ERROR py_ballisticcalc imported from {py_ballisticcalc.__file__}, not {REPO}')
        return 3
    if a.replay:
        return runner.replay_file(a.replay)
    seed = int(os.environ.get('VERIF_SEED', '0') or 0)
    try:
        return runner.run_property(a.prop.upper(), a.tier, seed, a.jobs, a.only)
    except BaseException as e:  # noqa
        import traceback
        traceback.print_exc()
        print(f'HARNESS-ERROR property={a.prop} {type(e).__name__}: {e}')
        return 3


if __name__ == '__main__':
    sys.exit(main())
