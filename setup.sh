#!/bin/sh
# Build /verif/.venv offline: a venv of /venv/bin/python that also sees /venv's site-packages
# (so that py_ballisticcalc's own dependencies resolve) plus z3-solver and cvc5 from the wheelhouse.
set -e
cd "$(dirname "$0")"
V=.venv
if [ ! -x "$V/bin/python" ] || ! "$V/bin/python" -c "import z3, typing_extensions" >/dev/null 2>&1; then
  rm -rf "$V"
  /venv/bin/python -m venv "$V"
  SP=$("$V/bin/python" -c "import sysconfig; print(sysconfig.get_paths()['purelib'])")
  printf '/venv/lib/python3.12/site-packages\n' > "$SP/_verif_overlay.pth"
  PIP_NO_INDEX=1 "$V/bin/python" -m pip install -q --no-index --find-links /opt/veriftools/wheels z3-solver cvc5 jsonschema >/dev/null
fi
"$V/bin/python" -c "import z3; print('z3', z3.get_version_string())"
"$V/bin/python" -B symx/selftest.py
