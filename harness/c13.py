"""C13 - a quantity's magnitude is immutable and comparisons follow magnitude.

Pattern I: the quantity state (base-unit magnitude, display unit) is arbitrary (symbolic magnitude, every display
unit of the dimension); ONE real operation runs; afterwards the magnitude term and every get_in(u) term are the
same terms.  By induction this covers every finite operation history; C13.history additionally runs the whole
operation list as one sequence on one object (aliasing cross-check).
"""
from symx.runner import harness
from harness.common import pybc, enum_units, with_preferred, SLOT_DIM

FUNCS = ['py_ballisticcalc.unit.AbstractDimension.*', 'py_ballisticcalc.unit.Unit.__call__']
DIMS = ['Distance', 'Weight', 'Pressure', 'Velocity', 'Energy', 'Angular', 'Temperature']


def _mk(p, dim, value, unit):
    """a quantity in an arbitrary state: magnitude and display unit set directly (any reachable state has this form)"""
    cls = getattr(p, dim)
    q = object.__new__(cls)
    q._value = value
    q._defined_units = unit
    return q


def _reads(ctx, p, q, dim):
    out = {}
    for u in enum_units()[dim]:
        out[u] = q.get_in(getattr(p.Unit, u))
    out['_raw'] = q.raw_value
    return out


def _same(ctx, name, before, after):
    for k in before:
        ctx.check(name, ctx.same_term(before[k], after[k]), info={'read': k})


def _ops(ctx, p, dim, others):
    """(name, callable(q)) for every operation of the statement; `others` are other quantities/numbers to compare with"""
    U = p.Unit
    ops = []
    for u in enum_units()[dim]:
        uu = getattr(U, u)
        ops += [(f'lshift:{u}', lambda q, uu=uu: q << uu), (f'rlshift:{u}', lambda q, uu=uu: uu << q),
                (f'rshift:{u}', lambda q, uu=uu: q >> uu), (f'convert:{u}', lambda q, uu=uu: q.convert(uu)),
                (f'get_in:{u}', lambda q, uu=uu: q.get_in(uu)), (f'unitcall:{u}', lambda q, uu=uu: uu(q))]
    ops += [('unit_value', lambda q: q.unit_value), ('raw_value', lambda q: q.raw_value), ('units', lambda q: q.units),
            ('str', lambda q: str(q)), ('repr', lambda q: repr(q)), ('float', lambda q: type(q).__float__(q)),
            ('hash', lambda q: type(q).__hash__(q))]
    for i, o in enumerate(others):
        ops += [(f'eq:{i}', lambda q, o=o: q == o), (f'ne:{i}', lambda q, o=o: q != o), (f'lt:{i}', lambda q, o=o: q < o),
                (f'le:{i}', lambda q, o=o: q <= o), (f'gt:{i}', lambda q, o=o: q > o), (f'ge:{i}', lambda q, o=o: q >= o),
                (f'req:{i}', lambda q, o=o: o == q), (f'rlt:{i}', lambda q, o=o: o < q)]
    # passing as an argument to library calls (by dimension)
    PU = p.PreferredUnits
    slots = [s for s, d in __import__('harness.common', fromlist=['SLOT_DIM']).SLOT_DIM.items() if d == dim]
    for s in slots:
        ops.append((f'preferred:{s}', lambda q, s=s: getattr(PU, s)(q)))
    dm = lambda: p.DragModel(0.3, p.TableG7)
    if dim == 'Distance':
        ops += [('arg:Weapon.sight_height', lambda q: p.Weapon(sight_height=q)), ('arg:Weapon.twist', lambda q: p.Weapon(twist=q)),
                ('arg:Wind.until_distance', lambda q: p.Wind(until_distance=q)),
                ('arg:DragModel.diameter', lambda q: p.DragModel(0.3, p.TableG7, 0, q, 0)),
                ('arg:DragModel.length', lambda q: p.DragModel(0.3, p.TableG7, 0, 0, q)),
                ('arg:Sight.scale_factor', lambda q: p.Sight('FFP', q, p.Unit.Mil(0.1), p.Unit.Mil(0.1)))]
    elif dim == 'Angular':
        ops += [('arg:Weapon.zero_elevation', lambda q: p.Weapon(zero_elevation=q)),
                ('arg:Shot.look_angle', lambda q: p.Shot(p.Weapon(), p.Ammo(dm(), 800), look_angle=q, atmo=_ATMO[0])),
                ('arg:Shot.relative_angle', lambda q: p.Shot(p.Weapon(), p.Ammo(dm(), 800), relative_angle=q, atmo=_ATMO[0])),
                ('arg:Shot.cant_angle', lambda q: p.Shot(p.Weapon(), p.Ammo(dm(), 800), cant_angle=q, atmo=_ATMO[0])),
                ('arg:Wind.direction_from', lambda q: p.Wind(direction_from=q)),
                ('lib:set_weapon_zero_on_a_weapon_holding_q', _zero_with)]
    elif dim == 'Velocity':
        ops += [('arg:Ammo.mv', lambda q: p.Ammo(dm(), q)), ('arg:Wind.velocity', lambda q: p.Wind(velocity=q)),
                ('arg:get_velocity_for_temp', lambda q: p.Ammo(dm(), q, use_powder_sensitivity=True).get_velocity_for_temp(p.Unit.Celsius(3)))]
    elif dim == 'Temperature':
        ops += [('arg:Ammo.powder_temp', lambda q: p.Ammo(dm(), 800, q)),
                ('arg:get_velocity_for_temp', lambda q: p.Ammo(dm(), 800, p.Unit.Celsius(15), 0.5, True).get_velocity_for_temp(q))]
    elif dim == 'Weight':
        ops += [('arg:DragModel.weight', lambda q: p.DragModel(0.3, p.TableG7, q, 0, 0))]
    return ops


_ATMO = [None]


def _zero_with(q):
    """q is a weapon's stored zero (also held by a second weapon); the weapon is zeroed through the real Calculator entry point with the solver
    object replaced by a recorder (no physics): the weapon gets a NEW zero quantity, q itself keeps its magnitude"""
    p = pybc()
    calc = p.Calculator()

    class Rec:
        def zero_angle(self, shot, distance):
            return p.Angular.Radian(0.0123)
    calc._calc = Rec()
    weapon = p.Weapon(p.Unit.Inch(2.0), p.Unit.Inch(10.0), q)
    held = p.Weapon(zero_elevation=q)
    shot = p.Shot(weapon, p.Ammo(p.DragModel(0.3, p.TableG7), p.Unit.FPS(2700.0)), atmo=_ATMO[0])
    calc.set_weapon_zero(shot, p.Unit.Foot(250.0))
    return held.zero_elevation is q


def _cfg(tier):
    out = []
    for d in DIMS:
        for a in enum_units()[d]:
            out.append({'dim': d, 'a': a})
    return out


def _setup(ctx, dim, a):
    p = pybc()
    if _ATMO[0] is None:
        _ATMO[0] = p.Atmo.icao()
    val = ctx.real('value')
    if dim == 'Angular':
        ctx.assume((val > -1.5) & (val < 1.5))      # tangent-based reads stay on the principal branch
    if dim == 'Temperature':
        ctx.assume(val > -459)
    q = _mk(p, dim, val, getattr(p.Unit, a))
    o_val = ctx.real('other')
    others = [_mk(p, dim, o_val, getattr(p.Unit, enum_units()[dim][0])), ctx.real('number'), 0]
    return p, q, val, others


@harness('C13.step', 'C13', configs=_cfg, functions=FUNCS, must_reach=['check:magnitude_unchanged', 'check:reads_unchanged'],
         engine_opts={'div_check': False}, cost=2,
         bounds='one operation from an arbitrary state (symbolic magnitude x every display unit) x every operation of the statement '
                '(<<, >>, convert, get_in, Unit(q), unit_value, raw_value, units, str, repr, float, hash, 8 comparisons x 3 partners, '
                'PreferredUnits.<slot>(q), constructor/method arguments): inductive step => histories of any length',
         stubs=['unit.float / unit.hash keep symbolic values symbolic (identical to the builtins on concrete values)',
                'round()/format of a symbolic float return placeholders (formatting is not the subject)'],
         assumptions=['angular magnitudes in (-1.5, 1.5) rad, temperatures above -459 F (so that reads do not raise)'])
def c13_step(ctx, dim, a):
    p, q, val, others = _setup(ctx, dim, a)
    for name, op in _ops(ctx, p, dim, others):
        qq = _mk(p, dim, val, getattr(p.Unit, a))
        before = _reads(ctx, p, qq, dim)
        try:
            r = op(qq)
            if isinstance(r, (bool,)) or ctx.is_symbolic(r):
                pass
        except (ValueError, TypeError, ZeroDivisionError):
            pass
        ctx.check('magnitude_unchanged', ctx.same_term(qq._value, val), info={'op': name})
        # an operation may change the display unit only to a unit of the same dimension or leave reads intact
        after = _reads(ctx, p, qq, dim)
        _same(ctx, 'reads_unchanged', before, after)


@harness('C13.history', 'C13', configs=_cfg, functions=FUNCS, must_reach=['check:history_reads_unchanged'],
         engine_opts={'div_check': False}, cost=2,
         bounds='the whole operation list of C13.step applied as ONE sequence (about 100 operations) to one object, with a second '
                'quantity aliased as comparison partner')
def c13_history(ctx, dim, a):
    p, q, val, others = _setup(ctx, dim, a)
    before = _reads(ctx, p, q, dim)
    o_before = _reads(ctx, p, others[0], dim)
    for name, op in _ops(ctx, p, dim, others):
        try:
            op(q)
        except (ValueError, TypeError, ZeroDivisionError):
            pass
    _same(ctx, 'history_reads_unchanged', before, _reads(ctx, p, q, dim))
    _same(ctx, 'partner_reads_unchanged', o_before, _reads(ctx, p, others[0], dim))


def _cfg_pairs(tier):
    out = []
    for d in DIMS:
        us = enum_units()[d]
        for i, a in enumerate(us):
            bs = us if tier == 'thorough' else [us[i], us[(i + 1) % len(us)]]
            for b in dict.fromkeys(bs):
                out.append({'dim': d, 'a': a, 'b': b})
    return out


@harness('C13.order', 'C13', configs=_cfg_pairs, functions=FUNCS, must_reach=['check:order_follows_magnitude'],
         bounds='two quantities of one dimension with symbolic magnitudes and display units (a, b) (quick: b in {a, next}; thorough: all pairs), '
                'and a symbolic plain number: six operators in both operand orders')
def c13_order(ctx, dim, a, b):
    p = pybc()
    v1, v2, n = ctx.real('v1'), ctx.real('v2'), ctx.real('n')
    q1 = _mk(p, dim, v1, getattr(p.Unit, a))
    q2 = _mk(p, dim, v2, getattr(p.Unit, b))
    import operator as o
    for nm, f in (('lt', o.lt), ('le', o.le), ('gt', o.gt), ('ge', o.ge), ('eq', o.eq), ('ne', o.ne)):
        ctx.check('order_follows_magnitude', f(q1, q2) == f(v1, v2), info={'op': nm, 'with': 'quantity'})
        ctx.check('order_follows_magnitude', f(q1, n) == f(v1, n), info={'op': nm, 'with': 'number'})
        ctx.check('order_follows_magnitude', f(n, q1) == f(n, v1), info={'op': nm, 'with': 'number-reflected'})


@harness('C13.hash', 'C13', configs=_cfg_pairs, functions=['py_ballisticcalc.unit.AbstractDimension.__hash__'],
         must_reach=['check:equal_quantities_hash_equally', 'check:hash_survives_display_change'],
         bounds='two quantities of one dimension, symbolic magnitudes, display units (a, b); hash modelled as an unknown injective '
                'function of the hashed structure (so equality of hashes <=> equality of the hashed tuples)',
         stubs=['unit.hash -> HashVal (injective unknown function); natively the real hash() is used'])
def c13_hash(ctx, dim, a, b):
    p = pybc()
    v1, v2 = ctx.real('v1'), ctx.real('v2')
    q1 = _mk(p, dim, v1, getattr(p.Unit, a))
    q2 = _mk(p, dim, v2, getattr(p.Unit, b))
    h1, h2 = type(q1).__hash__(q1), type(q2).__hash__(q2)
    ctx.check('equal_quantities_hash_equally', ctx.implies(q1 == q2, h1 == h2))
    q1 << getattr(p.Unit, b)
    h1b = type(q1).__hash__(q1)
    ctx.check('hash_survives_display_change', h1 == h1b)


def _cfg_cross(tier):
    return [{'dim': d} for d in DIMS]


def _slot_call(p, dim, v, own_unit, d2, uu):
    """a quantity of dimension `dim` handed to a PreferredUnits slot of the foreign dimension d2 (as library constructors do) and read back there"""
    slot = next(k for k, d in SLOT_DIM.items() if d == d2)
    with with_preferred(**{slot: uu}):
        r = getattr(p.PreferredUnits, slot)(_mk(p, dim, v, getattr(p.Unit, own_unit)))
        return r >> uu


@harness('C13.cross', 'C13', configs=_cfg_cross, functions=['py_ballisticcalc.unit.AbstractDimension._validate_unit_type'],
         must_reach=['check:foreign_read_raises'],
         bounds='every (dimension class, foreign unit) pair: get_in, >>, constructor, unit_value/str after << to a foreign unit, the foreign unit CALLED on the quantity (Unit.X(q), PreferredUnits.<slot>(q)) and read back')
def c13_cross(ctx, dim):
    p = pybc()
    v = ctx.real('value')
    own = enum_units()[dim]
    cls = getattr(p, dim)
    for d2 in DIMS:
        if d2 == dim:
            continue
        for u in enum_units()[d2]:
            uu = getattr(p.Unit, u)
            q = _mk(p, dim, v, getattr(p.Unit, own[0]))
            # another quantity - of the FOREIGN dimension, with the same base magnitude, and one of this dimension - has just
            # been read legitimately in that unit / in its own unit: what other objects were asked must not matter
            other = _mk(p, d2, v, uu)
            other.get_in(uu), other >> uu, other.unit_value
            mine = _mk(p, dim, v, getattr(p.Unit, own[-1]))
            mine.unit_value, mine >> getattr(p.Unit, own[0])
            for nm, f in (('get_in', lambda: q.get_in(uu)), ('rshift', lambda: q >> uu), ('ctor', lambda: cls(v, uu)),
                          ('unit_value_after_lshift', lambda: (q << uu).unit_value),
                          ('str_after_lshift', lambda: str(q)),
                          # the unit itself CALLED on the quantity (what every constructor does through PreferredUnits.<slot>(x)):
                          # whatever comes back, reading it in that foreign unit is a conversion error, never a number
                          ('unit_call_read', lambda: uu(_mk(p, dim, v, getattr(p.Unit, own[0]))).unit_value),
                          ('unit_call_rshift', lambda: uu(_mk(p, dim, v, getattr(p.Unit, own[-1]))) >> uu),
                          ('unit_call_get_in', lambda: uu(_mk(p, dim, v, getattr(p.Unit, own[0]))).get_in(uu)),
                          ('preferred_slot_call', lambda: _slot_call(p, dim, v, own[0], d2, uu))):
                try:
                    r = f()
                    ok = False
                except p.UnitConversionError:
                    ok = True
                ctx.check('foreign_read_raises', ok, info={'unit': u, 'via': nm})
            ctx.check('magnitude_unchanged_by_foreign', ctx.same_term(q._value, v))


@harness('C13.constructed', 'C13', configs=_cfg, functions=FUNCS, must_reach=['check:constructed_quantity_reads_the_same_after_redisplay'],
         engine_opts={'div_check': False}, cost=2,
         bounds='a quantity built by the REAL constructor (Unit.X(v), v symbolic; angles up to three turns either way, so that the wrap at one turn is crossed) is read in its '
                'own unit, in the base unit and through unit_value; its display unit is then changed and changed back (<<, convert, Unit(q)) and it is read again: the same values',
         assumptions=['tangent-based angular units and temperatures below absolute zero are left to C13.step / C06'])
def c13_constructed(ctx, dim, a):
    p = pybc()
    U = p.Unit
    if a in ('InchesPer100Yd', 'CmPer100m'):
        ctx.reach('check:constructed_quantity_reads_the_same_after_redisplay')
        return
    v = ctx.real('value', -1200, 1200)
    if dim == 'Temperature':
        ctx.assume(v > 0)
    if dim == 'Angular':
        from harness.c06 import _angle_rad
        rad, _ = _angle_rad(ctx, v, a)
        ctx.assume((rad > -19) & (rad < 19))
    ua = getattr(U, a)
    q = ua(v)
    own = [u for u in enum_units()[dim] if u not in ('InchesPer100Yd', 'CmPer100m')]
    base = own[0]

    def reads():
        return {'own': q >> ua, 'get_in': q.get_in(ua), 'base': q >> getattr(U, base), 'raw': q.raw_value}
    before = reads()
    uv = q.unit_value
    ctx.check_eq('constructed_quantity_reads_the_same_after_redisplay', uv, before['own'], rel=1e-12, abs=1e-12, info={'what': 'unit_value vs >> own unit'})
    other = getattr(U, own[(own.index(a) + 1) % len(own)])
    for how in ('lshift', 'convert', 'unit_call'):
        if how == 'lshift':
            q << other
            q << ua
        elif how == 'convert':
            q.convert(other)
            q.convert(ua)
        else:
            other(q)
            ua(q)
        after = reads()
        for k in before:
            ctx.check_eq('constructed_quantity_reads_the_same_after_redisplay', after[k], before[k], rel=1e-12, abs=1e-12, info={'read': k, 'after': how})
        ctx.check_eq('constructed_quantity_reads_the_same_after_redisplay', q.unit_value, uv, rel=1e-12, abs=1e-12, info={'read': 'unit_value', 'after': how})
