"""C14 - multi-BC drag models realise the interpolated BC and leave their inputs intact.

Pattern U, fully symbolic: m BC points (symbolic BC and Mach, in arbitrary relative order: the real sort runs on symbolic keys and
forks over every ordering) and a table of n points with symbolic ascending Mach and symbolic CD, given as dict list or as the
DragDataPoint list of another (donor) model.
"""
from fractions import Fraction as F

from symx.runner import harness
from harness.common import pybc, VEL_UNITS, with_preferred
from ref import si

FUNCS = ['py_ballisticcalc.drag_model.DragModelMultiBC', 'py_ballisticcalc.drag_model.linear_interpolation',
         'py_ballisticcalc.drag_model.make_data_points', 'py_ballisticcalc.drag_model.BCPoint.__init__',
         'py_ballisticcalc.drag_model.DragModel.__init__']


def _dm():
    import py_ballisticcalc.drag_model as dm
    return dm


def _interp_oracle(ctx, x, pts):
    """clamped piecewise-linear interpolation through pts (sorted ascending by x); forks like a scan"""
    if x <= pts[0][0]:
        return pts[0][1]
    if x >= pts[-1][0]:
        return pts[-1][1]
    for j in range(len(pts) - 1):
        if x < pts[j + 1][0]:
            (x0, y0), (x1, y1) = pts[j], pts[j + 1]
            return y0 + (y1 - y0) * (x - x0) / (x1 - x0)
    raise AssertionError('unreachable')


def _cfg_li(tier):
    ks = [1, 2, 3, 4] if tier == 'quick' else [1, 2, 3, 4, 5, 6]
    return [{'k': k} for k in ks]


@harness('C14.interpolation', 'C14', configs=_cfg_li, functions=FUNCS, must_reach=['check:piecewise_linear_clamped', 'inside', 'clamped'],
         engine_opts={'div_check': False}, cost=3,
         bounds='real linear_interpolation on one symbolic query and k = 1..4 (quick) / 1..6 (thorough) symbolic strictly ascending points; '
                'the binary search loop unrolls completely')
def c14_interpolation(ctx, k):
    dm = _dm()
    xp, yp = [], []
    for i in range(k):
        x = ctx.real(f'xp{i}', -1e3, 1e3)
        if i:
            ctx.assume(x > xp[-1])
        xp.append(x)
        yp.append(ctx.real(f'yp{i}', -1e3, 1e3))
    q = ctx.real('x', -2e3, 2e3)
    got = dm.linear_interpolation([q], xp, yp)
    ctx.check('one_value_per_query', len(got) == 1)
    want = _interp_oracle(ctx, q, list(zip(xp, yp)))
    if k > 1 and (q > xp[0]) and (q < xp[-1]):
        ctx.reach('inside')
    else:
        ctx.reach('clamped')
    ctx.check_eq('piecewise_linear_clamped', got[0], want)


def _cfg_model(tier):
    out = []
    shapes = [(1, 2), (2, 2), (2, 3), (3, 2)] if tier == 'quick' else [(1, 2), (1, 4), (2, 2), (2, 3), (2, 4), (3, 2), (3, 3), (4, 2)]
    for m, n in shapes:
        for kind in ('dicts', 'donor'):
            for wd in (False, True):
                out.append({'m': m, 'n': n, 'kind': kind, 'wd': wd})
    if tier == 'quick':
        # several BC points inside ONE table interval / more bands than rows (BC points spaced more closely than the table rows)
        out.append({'m': 4, 'n': 2, 'kind': 'dicts', 'wd': False})
        out.append({'m': 3, 'n': 3, 'kind': 'donor', 'wd': False})
    return out


def _table(ctx, n):
    xs, ys = [], []
    for i in range(n):
        x = ctx.real(f'tmach{i}', 0, 10)
        if i:
            ctx.assume(x > xs[-1])
        xs.append(x)
        ys.append(ctx.real(f'tcd{i}', 1e-3, 10))
    return xs, ys


@harness('C14.model', 'C14', configs=_cfg_model, functions=FUNCS, cost=10,
         must_reach=['check:effective_bc_is_interpolated', 'check:table_input_intact', 'check:points_intact', 'check:second_build_identical'],
         engine_opts={'div_check': False},
         bounds='m BC points x n table nodes in {(1,2),(2,2),(2,3),(3,2),(4,2),(3,3)} (quick) up to (4,2)/(3,3)/(2,4) (thorough); points in every relative order '
                '(distinct Mach); table as dict list and as the data points of a donor model; with and without weight/diameter; built twice',
         assumptions=['BC points have pairwise distinct Mach numbers (interpolation is not defined on duplicates)'])
def c14_model(ctx, m, n, kind, wd):
    p, dm = pybc(), _dm()
    xs, ys = _table(ctx, n)
    bcs = [ctx.real(f'bc{i}', 1e-3, 10) for i in range(m)]
    ms = [ctx.real(f'bcmach{i}', 0, 10) for i in range(m)]          # Mach 0 (the first node of every shipped table) included
    for i in range(m):
        for j in range(i):
            ctx.assume(ms[i] != ms[j])
    weight, diameter = (ctx.real('weight_gr', 1, 1e4), ctx.real('diameter_in', 0.05, 5)) if wd else (0, 0)
    donor = None
    if kind == 'dicts':
        table_in = [({'Mach': xs[i], 'CD': ys[i]} if (m + n) % 2 else {'CD': ys[i], 'Mach': xs[i]}) for i in range(n)]       # either key order
    else:
        donor = dm.DragModel(0.5, [{'Mach': xs[i], 'CD': ys[i]} for i in range(n)])
        table_in = donor.drag_table
    points = [dm.BCPoint(bcs[i], Mach=ms[i]) for i in range(m)]
    given = list(points)

    def build():
        return dm.DragModelMultiBC(list(given), table_in, p.Unit.Grain(weight), p.Unit.Inch(diameter)) if wd \
            else dm.DragModelMultiBC(list(given), table_in)

    model = build()
    # oracle: interpolate the given points (sorted here, independently) at each table node
    order = sorted(range(m), key=lambda i: ms[i])
    pts = [(ms[i], bcs[i]) for i in order]
    ctx.check('table_length', len(model.drag_table) == n)
    for i in range(n):
        want = _interp_oracle(ctx, xs[i], pts)
        eff = ys[i] * model.BC / model.drag_table[i].CD
        ctx.check_eq('effective_bc_is_interpolated', eff, want, rel=1e-9, info={'node': i})
        ctx.check('node_mach_kept', ctx.same_term(model.drag_table[i].Mach, xs[i]))
    if wd:
        ctx.check_eq('bc_is_sectional_density', model.BC, weight / (diameter * diameter) / 7000, rel=1e-9)
    else:
        ctx.check('bc_is_one', model.BC == 1.0)
    # inputs intact
    for i in range(n):
        cur = table_in[i]['CD'] if kind == 'dicts' else table_in[i].CD
        curm = table_in[i]['Mach'] if kind == 'dicts' else table_in[i].Mach
        ctx.check('table_input_intact', ctx.same_term(cur, ys[i]) and ctx.same_term(curm, xs[i]), info={'node': i, 'kind': kind})
    for i in range(m):
        ctx.check('points_intact', ctx.same_term(given[i].BC, bcs[i]) and ctx.same_term(given[i].Mach, ms[i]))
    if donor is not None:
        ctx.check('donor_model_unchanged', all(ctx.same_term(donor.drag_table[i].CD, ys[i]) for i in range(n)) and donor.BC == 0.5)
    # ANOTHER model on the same table whose BC points sit at the same Mach numbers but carry other BC values (the next bullet of a line),
    # built after the first: its effective BC interpolates ITS points
    bcs_b = [ctx.real(f'bc_other{i}', 1e-3, 10) for i in range(m)]
    other = dm.DragModelMultiBC([dm.BCPoint(bcs_b[i], Mach=ms[i]) for i in range(m)], table_in)
    pts_b = [(ms[i], bcs_b[i]) for i in order]
    for i in range(n):
        ctx.check_eq('effective_bc_is_interpolated', ys[i] * other.BC / other.drag_table[i].CD, _interp_oracle(ctx, xs[i], pts_b), rel=1e-9,
                     info={'node': i, 'model': 'second model, same Mach bands, other BC values'})
    # built twice from the same inputs
    model2 = build()
    for i in range(n):
        ctx.check_eq('second_build_identical', model2.drag_table[i].CD, model.drag_table[i].CD, rel=1e-12, info={'node': i, 'kind': kind})
    ctx.check_eq('second_build_identical', model2.BC, model.BC, rel=1e-12)


def _cfg_single(tier):
    return [{'n': n, 'wd': wd} for n in (2, 3) for wd in (False, True)]


@harness('C14.single', 'C14', configs=_cfg_single, functions=FUNCS, must_reach=['check:single_point_is_plain_model'],
         engine_opts={'div_check': False},
         bounds='one BC point (symbolic BC, Mach) on a symbolic table of n = 2..3 nodes: drag per unit (CD/BC) equals that of the plain model')
def c14_single(ctx, n, wd):
    p, dm = pybc(), _dm()
    xs, ys = _table(ctx, n)
    b = ctx.real('bc', 1e-3, 10)
    mach = ctx.real('bcmach', 1e-3, 10)
    weight, diameter = (ctx.real('weight_gr', 1, 1e4), ctx.real('diameter_in', 0.05, 5)) if wd else (0, 0)
    table = [{'Mach': xs[i], 'CD': ys[i]} for i in range(n)]
    multi = dm.DragModelMultiBC([dm.BCPoint(b, Mach=mach)], table, weight, diameter)
    plain = dm.DragModel(b, table, weight, diameter)
    for i in range(n):
        ctx.check_eq('single_point_is_plain_model', multi.drag_table[i].CD / multi.BC, plain.drag_table[i].CD / plain.BC, rel=1e-9)


def _cfg_v(tier):
    return [{'unit': u, 'bare': b} for u in VEL_UNITS for b in (False, True)]


@harness('C14.bcpoint', 'C14', configs=_cfg_v, functions=FUNCS, must_reach=['check:velocity_to_mach', 'check:rejects'],
         bounds='BCPoint from a symbolic velocity in every velocity unit (bare under the preferred unit, or explicit): Mach at the standard '
                'sea-level speed of sound (340.29 m/s, 1e-4 relative); rejection of non-positive BC, both or neither of Mach/V')
def c14_bcpoint(ctx, unit, bare):
    p, dm = pybc(), _dm()
    U = getattr(p.Unit, unit)
    v = ctx.real('v', 1e-3, 1e5)
    b = ctx.real('bc', 1e-3, 10)
    with with_preferred(velocity=U):
        pt = dm.BCPoint(b, V=(v if bare else U(v)))
    a0 = F(340294, 1000)       # sqrt(1.4 * 287.053 * 288.15) m/s
    ctx.check_eq('velocity_to_mach', pt.Mach, v * si.SPEED_MPS[unit] / a0, rel=1e-4)
    # ... and again after the preferred velocity unit was changed (nothing may be remembered from the first point)
    for other in VEL_UNITS:
        if other == unit:
            continue
        OU = getattr(p.Unit, other)
        with with_preferred(velocity=OU):
            pt2 = dm.BCPoint(b, V=(v if bare else OU(v)))
        ctx.check_eq('velocity_to_mach', pt2.Mach, v * si.SPEED_MPS[other] / a0, rel=1e-4, info={'second_unit': other})
    ctx.check('bc_kept', ctx.same_term(pt.BC, b))

    def rejected(f):
        try:
            f()
            return False
        except ValueError:
            return True
    nb = ctx.real('nonpositive_bc', -10, 0)
    ctx.check('rejects', rejected(lambda: dm.BCPoint(nb, Mach=1.0)))
    ctx.check('rejects', rejected(lambda: dm.BCPoint(b, Mach=1.0, V=U(v))))
    ctx.check('rejects', rejected(lambda: dm.BCPoint(b)))
