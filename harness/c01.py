"""C01 - the trajectory is the solution of the point-mass equations of motion.

step   : pattern I - one real _integrate iteration from an arbitrary state equals the semi-implicit Euler step of the stated ODE
         (acceleration = gravity - density(alt0+y) * |v-w| * K(|v-w|/a) * (v-w)); atmosphere queried at alt0 + y, drag at |v-w|/a;
         launch state = muzzle displaced by the canted sight height, velocity along (cos e cos az, sin e, cos e sin az).
launch : Shot.barrel_elevation / barrel_azimuth = look + cos(cant)(zero + relative), sin(cant)(zero + relative); _init_trajectory copies.
vacuum : N real iterations with density 0 and arbitrary positive step durations reproduce the parabola up to g*sum(dt_k^2)/2.
"""
from fractions import Fraction as F

from symx.runner import harness
from symx.stubs import symmath as M
from harness.common import pybc
from harness.step import StepWorld, tcmod

FUNCS = ['py_ballisticcalc.trajectory_calc._trajectory_calc.TrajectoryCalc._integrate',
         'py_ballisticcalc.trajectory_calc._trajectory_calc.TrajectoryCalc._init_trajectory',
         'py_ballisticcalc.trajectory_calc._trajectory_calc.TrajectoryCalc.get_calc_step',
         'py_ballisticcalc.conditions.Shot.barrel_elevation', 'py_ballisticcalc.conditions.Shot.barrel_azimuth',
         'py_ballisticcalc.vector._vector.Vector.*']


def euler_step(ctx, w, o, rho, a, K):
    """the step of the stated equations, from the property text"""
    S, G = w.S, w.G
    r = o['r']
    rr = r if r > 1.0 else 1.0          # max(1, r)
    dt = (S / 2) / rr
    drag = rho * r * K
    vx = o['vx'] + (0.0 - drag * o['ax']) * dt
    vy = o['vy'] + (G - drag * o['ay']) * dt
    vz = o['vz'] + (0.0 - drag * o['az']) * dt
    x, y, z = o['x'] + vx * dt, o['y'] + vy * dt, o['z'] + vz * dt
    return dict(dt=dt, vx=vx, vy=vy, vz=vz, x=x, y=y, z=z, drag=drag)


def _cfg_step(tier):
    return [{'shard': i} for i in range(8)]


@harness('C01.step', 'C01', configs=_cfg_step, functions=FUNCS, cost=10,
         engine_opts={'div_check': False, 'nl_axioms_in_feasibility': False},
         must_reach=['check:time_is_dt', 'check:position_update', 'check:velocity_update', 'check:atmosphere_at_projectile_altitude',
                     'check:drag_at_air_relative_mach', 'check:air_advance_within_step', 'returned', 'range_error'],
         bounds='ONE real iteration of _integrate from an arbitrary state: symbolic launch speed/elevation/azimuth (any velocity vector), sight height and cant terms '
                '(any start y, z), wind vector, density ratio >= 0, speed of sound > 0, drag answer K >= 0, step size, gravity and the three limits; '
                'unwind bound 1 (the atmosphere stub cuts the path at its second call)',
         stubs=['atmosphere = arbitrary function alt -> (rho >= 0, a > 0) recording the altitude asked for', 'drag = arbitrary K(M) >= 0 recording the Mach asked for',
                'wind = one segment with an arbitrary vector', 'sqrt/sin/cos/atan2 summarised'],
         allow_cut=['unwind'],
         outside=['global convergence under step refinement and the first-order error bound at the default step (numerical analysis of the whole iteration)'])
def c01_step(ctx, shard=0):
    w = StepWorld(ctx, limits='symbolic')
    p = w.p
    U = p.Unit
    R = ctx.real('max_range', 0, 1e6)
    # work-unit sharding by assumptions that partition the state space (together they cover it)
    ctx.assume((w.v0 >= w.vmin) if shard & 1 else (w.v0 < w.vmin))
    ctx.assume((w.alt0 >= w.altmin) if shard & 2 else (w.alt0 < w.altmin))
    ctx.assume((w.sh >= 0) if shard & 4 else (w.sh < 0))
    kind, res = w.run(R)
    ctx.reach('returned' if kind == 'ok' else 'range_error')
    row = res[-1] if kind == 'ok' else res.incomplete_trajectory[-1]
    o = w.oracle()
    ctx.check('one_atmosphere_query_per_step', len(w.atmo_calls) == 1 and len(w.drag_calls) == 1)
    alt, rho, a = w.atmo_calls[0]
    mach_q, K = w.drag_calls[0]
    ctx.check_eq('atmosphere_at_projectile_altitude', alt, w.alt0 + o['y'])
    ctx.check_eq('drag_at_air_relative_mach', mach_q, o['r'] / a)
    e = euler_step(ctx, w, o, rho, a, K)
    ctx.check_eq('time_is_dt', row.time, e['dt'])
    ctx.check_eq('position_update', row.distance >> U.Foot, e['x'], info={'axis': 'x'})
    ctx.check_eq('position_update', row.height >> U.Foot, e['y'], info={'axis': 'y'})
    ctx.check_eq('position_update', row.windage >> U.Foot, e['z'], info={'axis': 'z'})
    # the state handed to the row builder (pass-through spy on create_trajectory_row): components, then the derived columns
    ctx.check('one_row_built', len(w.row_args) == 1)
    (_t, pos, vel, speed, _a) = w.row_args[0][:5]
    ctx.check_eq('velocity_update', vel.x, e['vx'], info={'axis': 'x'})
    ctx.check_eq('velocity_update', vel.y, e['vy'], info={'axis': 'y'})
    ctx.check_eq('velocity_update', vel.z, e['vz'], info={'axis': 'z'})
    ctx.check('speed_is_magnitude_of_new_velocity', ctx.same_term(speed, M.sqrt(vel.x * vel.x + vel.y * vel.y + vel.z * vel.z)))
    ctx.check_eq('row_speed_column', row.velocity >> U.FPS, speed)
    ctx.check('row_angle_column', ctx.same_term(row.angle >> U.Radian, M.atan2(vel.y, vel.x)))
    ctx.check('row_speed_of_sound_is_queried_one', ctx.same_term(_a, a))
    ctx.check_eq('drag_column', row.drag, e['drag'])
    # no step advances the projectile through the air by more than half the configured maximum step (shared with C18)
    ctx.check('air_advance_within_step', o['r'] * row.time <= (w.S / 2) * (1 + 1e-12))
    ctx.check('step_duration_positive', (row.time > 0))


def _cfg_launch(tier):
    return [{}]


@harness('C01.launch', 'C01', functions=FUNCS, engine_opts={'div_check': False},
         must_reach=['check:barrel_elevation', 'check:barrel_azimuth', 'check:init_copies'],
         bounds='loop-free: all look / zero / relative / cant angles in [-1.5, 1.5] rad, sight height, altitude',
         stubs=['sin/cos summarised'])
def c01_launch(ctx):
    p = pybc()
    U = p.Unit
    tc = tcmod()
    from py_ballisticcalc.interface_config import create_interface_config
    look, zero, rel, cant = (ctx.real(n, -1.5, 1.5) for n in ('look', 'zero', 'relative', 'cant'))
    sh = ctx.real('sight_height_in', -50, 50)
    alt = ctx.real('altitude_ft', -1000, 30000)
    S = ctx.real('max_step_ft', 1e-3, 100)
    weapon = p.Weapon(U.Inch(sh), U.Inch(0.0), U.Radian(zero))
    atmo = p.Atmo.icao()
    atmo._altitude = U.Foot(alt)      # the solver reads only the altitude quantity here
    shot = p.Shot(weapon, p.Ammo(p.DragModel(0.3, p.TableG7), U.FPS(2700.0)), U.Radian(look), U.Radian(rel), U.Radian(cant), atmo)
    ctx.check_eq('barrel_elevation', shot.barrel_elevation >> U.Radian, look + M.cos(cant) * (zero + rel))
    ctx.check_eq('barrel_azimuth', shot.barrel_azimuth >> U.Radian, M.sin(cant) * (zero + rel))
    calc = tc.TrajectoryCalc(create_interface_config({'max_calc_step_size_feet': S}))
    calc._init_trajectory(shot)
    ctx.check_eq('init_copies', calc.barrel_elevation, look + M.cos(cant) * (zero + rel), info={'f': 'elevation'})
    ctx.check_eq('init_copies', calc.barrel_azimuth, M.sin(cant) * (zero + rel), info={'f': 'azimuth'})
    ctx.check_eq('init_copies', calc.cant_cosine, M.cos(cant), info={'f': 'cant_cos'})
    ctx.check_eq('init_copies', calc.cant_sine, M.sin(cant), info={'f': 'cant_sin'})
    ctx.check_eq('init_copies', calc.sight_height, sh / 12, info={'f': 'sight_height'})
    ctx.check_eq('init_copies', calc.alt0, alt, info={'f': 'alt0'})
    ctx.check_eq('init_copies', calc.look_angle, look, info={'f': 'look'})
    ctx.check_eq('init_copies', calc.calc_step, S / 2, info={'f': 'calc_step'})
    ctx.check_eq('init_copies', calc.muzzle_velocity, 2700.0, rel=1e-12, info={'f': 'mv'})


def _cfg_vac(tier):
    return [{'n': 4 if tier == 'quick' else 8}]


@harness('C01.vacuum', 'C01', configs=_cfg_vac, functions=FUNCS, cost=5, allow_cut=['unwind'],
         engine_opts={'div_check': False, 'nl_axioms_in_feasibility': False},
         must_reach=['check:vacuum_downrange_linear', 'check:vacuum_parabola_plus_discretisation_term', 'check:standard_gravity_default'],
         bounds='every N = 1..4 (quick) / 1..8 (thorough) real iterations (each exit point of the loop is a path) with density 0 (any drag answer), no wind, arbitrary positive step durations '
                '(the air-speed magnitude is replaced by fresh symbols >= 1, so dt_k = (S/2)/r_k is an arbitrary value in (0, S/2]); limits disabled',
         stubs=['Vector.magnitude -> fresh symbol r_k >= 1 per call (re-abstraction of the step duration)', 'limits = -infinity sentinel'],
         outside=['that the discretisation term g*sum(dt_k^2)/2 <= |g|*(S/2)*t/2 is small at the default step is arithmetic on the decided identity, stated, not a solver query'])
def c01_vacuum(ctx, n):
    import py_ballisticcalc.vector._vector as vec
    import py_ballisticcalc.trajectory_calc as tcpkg
    w = StepWorld(ctx, limits='off', max_atmo_calls=n, vacuum=True)
    p = w.p
    U = p.Unit
    ctx.assume((w.wx == 0) & (w.wz == 0))
    mags = []
    orig = vec.Vector.magnitude

    def magnitude(self):
        r = ctx.real(f'air_speed{len(mags)}', 1.000001, 1e5) if ctx.symbolic else orig(self)
        mags.append(r)
        return r
    vec.Vector.magnitude = magnitude
    try:
        R = ctx.real('max_range', 0, 1e6)
        kind, res = w.run(R, rec=1e9)
    finally:
        vec.Vector.magnitude = orig
    ctx.check('no_range_error_when_limits_disabled', kind == 'ok')
    row = res[-1]
    o = w.oracle()
    # step durations as the code derived them: calc_step / max(1, r_k) with r_k the air-speed answers (every other magnitude call
    # is the ground speed used for the limit test)
    dts = [(w.S / 2) / (mags[2 * k] if mags[2 * k] > 1.0 else 1.0) for k in range(len(w.atmo_calls))]
    t = 0.0
    for d in dts:
        t = t + d
    ctx.check_eq('vacuum_time', row.time, t)
    ctx.check_eq('vacuum_downrange_linear', row.distance >> U.Foot, o['vx'] * t)
    ctx.check_eq('vacuum_windage_linear', row.windage >> U.Foot, o['z'] + o['vz'] * t)
    sq = 0.0
    for d in dts:
        sq = sq + d * d
    ctx.check_eq('vacuum_parabola_plus_discretisation_term', row.height >> U.Foot, o['y'] + o['vy'] * t + w.G * t * t / 2 + w.G * sq / 2)
    ctx.check('discretisation_term_bound', ctx.abs(w.G * sq / 2) <= ctx.abs(w.G) * (w.S / 2) * t / 2)
    # default gravity is standard gravity (9.80665 m/s^2 in ft/s^2), 2e-7 relative
    g_std = F(980665, 100000) / F(3048, 10000)
    ctx.check('standard_gravity_default', abs(F(-tcpkg.cGravityConstant) - g_std) <= g_std * F(2, 10 ** 7))


def _cfg_vfire(tier):
    out = []
    K = 12 if tier == 'quick' else 24
    plan = [('A', 100.0, 5.0), ('C', 100.0, 30.0)] if tier == 'quick' else [('A', 100.0, 5.0), ('C', 100.0, 30.0), ('B', 60.0, -8.0), ('A', 30.0, 12.0), ('A', 0.5, 3.0)]
    for (c, step, rel) in plan:
        rmax = K * step / 2 * 0.9
        for i in range(2 if tier == 'quick' else 6):
            n = 2 if tier == 'quick' else 6
            # in a vacuum the wind cannot act: segmented winds (switches inside the horizon) must leave the parabola untouched
            out.append({'carrier': c, 'step_ft': step, 'relative_deg': rel, 'rlo': max(rmax * i / n, step * 1.01), 'rhi': rmax * (i + 1) / n,
                        'wind': ['none', 'two', 'tail_then_head'][i % 3]})
        # recording much finer than the integration step (rows are still points of the same trajectory)
        out.append({'carrier': c, 'step_ft': step, 'relative_deg': rel, 'rlo': rmax * 0.3, 'rhi': rmax * 0.5, 'wind': 'none', 'fine': 0.13})
    return out


@harness('C01.vacuum_fire', 'C01', configs=_cfg_vfire, functions=FUNCS + ['py_ballisticcalc.conditions.Vacuum.__init__'], cost=10,
         engine_opts={'div_check': False, 'nl_axioms_in_feasibility': False},
         must_reach=['check:vacuum_rows_on_parabola_within_discretisation_term', 'altitude_excursion_over_30ft'],
         bounds='the real Calculator.fire with the real Vacuum atmosphere on carriers A (5 deg), C (30 deg) [thorough: + B downhill, finer A, default step] with SYMBOLIC range and record step: '
                'every row (interpolated rows are terms in the request) vs the closed-form parabola under the configured gravity; horizon K <= 12 / 24 steps; altitude excursion > 30 ft',
         assumptions=['tolerance = the exact discretisation term of C01.vacuum bounded by |g|*(step/2)*t/2 plus the chord error of the linear row interpolation (g*dt^2/8) plus 1e-9'])
def c01_vacuum_fire(ctx, carrier, step_ft, relative_deg, rlo, rhi, wind='none', fine=None):
    import math
    from harness import carriers
    p = pybc()
    U = p.Unit
    calc, shot = carriers.make(carrier, step_ft, wind, relative_deg=relative_deg, vacuum=True)
    R = ctx.real('range_ft', rlo, rhi)
    S = ctx.real('record_step_ft', step_ft, max(rhi, step_ft)) if fine is None else float(step_ft * fine)
    rows = calc.fire(shot, U.Foot(R), U.Foot(S)).trajectory
    g = calc._calc._config.cGravityConstant
    e = shot.barrel_elevation >> U.Radian
    v0 = shot.ammo.mv >> U.FPS
    vx, vy = v0 * math.cos(e), v0 * math.sin(e)
    y0 = -(shot.weapon.sight_height >> U.Foot)
    dtmax = (step_ft / 2) / max(1.0, v0 * 0.5)
    if abs(vy * (rhi / vx)) > 30:
        ctx.reach('altitude_excursion_over_30ft')
    for k, r in enumerate(rows):
        t = r.time
        x = r.distance >> U.Foot
        y = r.height >> U.Foot
        tol = abs(g) * (step_ft / 2) / max(1.0, v0 * 0.5) * t / 2 + abs(g) * dtmax * dtmax / 8 + 1e-9
        ctx.check('vacuum_rows_on_parabola_within_discretisation_term',
                  (ctx.abs(x - vx * t) <= 1e-9 * (1 + ctx.abs(x))) & (ctx.abs(y - (y0 + vy * t + g * t * t / 2)) <= tol), info={'row': k})
        ctx.check('vacuum_no_windage', ctx.abs((r.windage >> U.Foot) - (calc._calc.spin_drift(t) if not ctx.is_symbolic(t) else 0.0)) <= 1e-9
                  if (shot.weapon.twist >> U.Inch) == 0 or not ctx.is_symbolic(t) else True, info={'row': k})
        ctx.check('vacuum_speed_is_closed_form', ctx.abs((r.velocity >> U.FPS) * (r.velocity >> U.FPS) - (vx * vx + (vy + g * t) * (vy + g * t)))
                  <= 1e-6 * v0 * v0 + 2 * abs(g) * dtmax * v0, info={'row': k})


def _cfg_drag_loop(tier):
    K = 12 if tier == 'quick' else 24
    plan = [('F', 20.0, dict(relative_deg=-80.0), 8000.0, 'none'), ('A', 100.0, dict(), 0.0, 'two'), ('D', 20.0, dict(relative_deg=60.0), 0.0, 'head'),
            ('G', 20.0, dict(relative_deg=2.0), 0.0, 'none')]
    return [{'carrier': c, 'step_ft': s, 'kw': kw, 'altitude_ft': alt, 'wind': w, 'K': K} for (c, s, kw, alt, w) in plan]


@harness('C01.drag_in_loop', 'C01', configs=_cfg_drag_loop, functions=FUNCS + ['py_ballisticcalc.trajectory_calc._trajectory_calc.TrajectoryCalc.drag_by_mach'], cost=6,
         engine_opts={'div_check': False, 'nl_axioms_in_feasibility': False},
         must_reach=['check:drag_in_the_loop_is_the_table_function_of_the_mach_asked', 'mach_rises', 'mach_falls'],
         bounds='carriers F (297 fps, steep downhill from 8000 ft: the projectile ACCELERATES across a table node boundary), D (lofted into a head wind), A (two winds) with symbolic range: every drag value the loop '
                'obtains (pass-through spy on drag_by_mach) equals the stateless table look-up of the Mach asked (real _calculate_by_curve_and_mach_list on a freshly built curve, '
                'which C09 decides against the table), times 2.08551e-4 / BC; and the Mach asked is |v - w| / a of the point fed to the recorder',
         outside=['shots other than the carriers: per step this is C01.step (drag asked at |v-w|/a) + C09 (what drag_by_mach returns)'])
def c01_drag_in_loop(ctx, carrier, step_ft, kw, altitude_ft, wind, K):
    from harness import carriers
    p = pybc()
    U = p.Unit
    tc = tcmod()
    calc, shot = carriers.make(carrier, step_ft, wind, altitude_ft=altitude_ft, config={'cMinimumVelocity': 0.0, 'cMaximumDrop': -1e9, 'cMinimumAltitude': -1e9}, **kw)
    import math
    R = ctx.real('range_ft', 0.5, K * step_ft / 2 * 0.9 * max(0.05, abs(math.cos(math.radians(kw.get('relative_deg', 0.0))))))
    calls = []
    orig = tc.TrajectoryCalc.drag_by_mach

    def spy(self, mach):
        v = orig(self, mach)
        calls.append((mach, v))
        return v

    def fire():
        del calls[:]
        tc.TrajectoryCalc.drag_by_mach = spy
        try:
            calc.fire(shot, U.Foot(R), U.Foot(step_ft))
        finally:
            tc.TrajectoryCalc.drag_by_mach = orig
        return list(calls)
    pts = shot.ammo.dm.drag_table
    X = [float(pt.Mach) for pt in pts]
    Y = [float(pt.CD) for pt in pts]
    from harness.c09 import _lagrange, _chord

    def on_table(m, cd):
        """independent of the code's curve: cd lies on the chord of the first interval, or on a parabola through three consecutive
        tabulated points that include both neighbours of m (the last three beyond the table)"""
        n = len(X)
        i = next((j for j in range(n - 1) if m <= X[j + 1]), n - 2)
        cands = []
        if i == 0:
            cands.append(_chord((X[0], Y[0]), (X[1], Y[1]), m))
        for j in range(1, n - 1):
            if j - 1 <= i and i + 1 <= j + 1:
                cands.append(_lagrange([(X[j - 1], Y[j - 1]), (X[j], Y[j]), (X[j + 1], Y[j + 1])], m))
        return any(abs(cd - c) <= 1e-9 for c in cands)

    def faithful(calls, bc):
        curve = tc.calculate_curve(pts)
        machs = tc._get_only_mach_data(pts)
        ok = True
        for (m, v) in calls:
            want = tc._calculate_by_curve_and_mach_list(machs, curve, m) * 2.08551e-04 / bc
            ok = ok and (abs(v - want) <= 1e-12 * abs(want)) and on_table(m, v * bc / 2.08551e-04)
        return ok
    bc = shot.ammo.dm.BC
    first = fire()
    ctx.check('drag_in_the_loop_is_the_table_function_of_the_mach_asked', faithful(first, bc), info={'calls': len(first)})
    # the same calculator and the same DragModel object after the BC was changed in place (BC truing): the drag of the CURRENT BC
    shot.ammo.dm.BC = bc * 1.25
    try:
        second = fire()
        ctx.check('drag_in_the_loop_is_the_table_function_of_the_mach_asked', faithful(second, bc * 1.25), info={'calls': len(second), 'after': 'BC changed in place'})
    finally:
        shot.ammo.dm.BC = bc
    calls[:] = first
    ms = [m for (m, _) in calls]
    pts_m = [pt.Mach for pt in pts]
    mids = [(a + b) / 2 for a, b in zip(pts_m, pts_m[1:])]
    if any(b > a and any(a < md <= b for md in mids) for a, b in zip(ms, ms[1:])):
        ctx.reach('mach_rises')          # ... across a boundary between nearest table nodes
    if any(b < a for a, b in zip(ms, ms[1:])):
        ctx.reach('mach_falls')


def _cfg_step_loop(tier):
    K = 12 if tier == 'quick' else 24
    plan = [('A', 100.0, dict(), 0.0, 'two'), ('A', 100.0, dict(look_deg=15.0), 0.0, 'head_then_tail'), ('B', 60.0, dict(), 0.0, 'tail_then_head'),
            ('C', 200.0, dict(relative_deg=30.0), 3000.0, 'two_unsorted'), ('D', 20.0, dict(relative_deg=40.0), 0.0, 'tail_then_head')]
    if tier == 'thorough':
        plan += [('G', 20.0, dict(relative_deg=2.0), 0.0, 'two'), ('A', 0.5, dict(), 0.0, 'two')]
    return [{'carrier': c, 'step_ft': s, 'kw': kw, 'altitude_ft': alt, 'wind': w, 'K': K} for (c, s, kw, alt, w) in plan]


@harness('C01.step_in_loop', 'C01', configs=_cfg_step_loop, functions=FUNCS, cost=6, engine_opts={'div_check': False, 'nl_axioms_in_feasibility': False},
         must_reach=['check:every_step_is_the_euler_step_of_the_stated_model', 'wind_changes', 'calm_after_last_segment'],
         bounds='carriers A (two winds; inclined sight line with a head wind followed by a tail wind), B, C (30 deg from 3000 ft, winds given unsorted), D (lofted) with coarse steps, horizon K <= 12 / 24 steps, '
                'symbolic range: EVERY integration step the real loop takes (states fed to the recorder) is recomputed from its start state with the stated model - real atmosphere at alt0 + y, '
                'stateless drag table look-up at |v - w| / a, gravity, and the wind of the segment that contains the start of the step (calm air beyond the last segment) - '
                'and must agree to 1e-9 relative',
         outside=['shots other than the carriers: C01.step decides one step from an arbitrary state with arbitrary environment answers; this harness ties the real environment into it on carriers'])
def c01_step_in_loop(ctx, carrier, step_ft, kw, altitude_ft, wind, K):
    import math
    from harness import carriers
    p = pybc()
    U = p.Unit
    tc = tcmod()
    calc, shot = carriers.make(carrier, step_ft, wind, altitude_ft=altitude_ft, config={'cMinimumVelocity': 0.0, 'cMaximumDrop': -1e9, 'cMinimumAltitude': -1e9}, **kw)
    cosl = max(0.05, abs(math.cos(math.radians(kw.get('relative_deg', 0.0)))))
    R = ctx.real('range_ft', 0.5, K * step_ft / 2 * 0.9 * cosl)
    with carriers.spy_filter() as spy:
        calc.fire(shot, U.Foot(R), U.Foot(step_ft))
    # segments as the caller gave them (order of until-distance established here; the vector of each is the Wind's own - unit factors are C06's and the
    # sign convention C12's subject)
    segs = sorted(((float(wd.until_distance >> U.Foot), tuple(wd.vector)) for wd in shot.winds), key=lambda s: s[0])
    pts = shot.ammo.dm.drag_table
    curve, machs = tc.calculate_curve(pts), tc._get_only_mach_data(pts)
    bc = shot.ammo.dm.BC
    g = -32.17405
    atmo = shot.atmo
    ok, worst, bad = True, 0.0, None
    changes = calm = 0
    last_w = None
    for k in range(len(spy) - 1):
        s0, s1 = spy[k], spy[k + 1]
        x, y, z = s0['p']
        w = (0.0, 0.0, 0.0)
        beyond = True
        for (until, vec) in segs:
            if until > x:
                w = vec
                beyond = False
                break
        if beyond and segs:
            calm += 1
        if last_w is not None and w != last_w:
            changes += 1
        last_w = w
        dens, a = atmo.get_density_factor_and_mach_for_altitude(altitude_ft + y)
        rel = tuple(s0['v'][i] - w[i] for i in range(3))
        r = math.sqrt(sum(c * c for c in rel))
        dt = (step_ft / 2) / max(1.0, r)
        km = tc._calculate_by_curve_and_mach_list(machs, curve, r / a) * 2.08551e-04 / bc
        drag = dens * r * km
        v1 = tuple(s0['v'][i] - (rel[i] * drag - (g if i == 1 else 0.0)) * dt for i in range(3))
        p1 = tuple(s0['p'][i] + v1[i] * dt for i in range(3))
        err = max(max(abs(v1[i] - s1['v'][i]) for i in range(3)) / (1.0 + r), max(abs(p1[i] - s1['p'][i]) for i in range(3)) / (1.0 + abs(x)),
                  abs(s0['t'] + dt - s1['t']) / (1e-3 + s1['t']), abs(s0['a'] - a) / a)
        if err > worst:
            worst, bad = err, k
        ok = ok and err <= 1e-9
    ctx.check('every_step_is_the_euler_step_of_the_stated_model', ok, info={'steps': len(spy) - 1, 'worst_relative_error': worst, 'at_step': bad})
    if changes:
        ctx.reach('wind_changes')
    if calm:
        ctx.reach('calm_after_last_segment')
