"""C10 - results depend only on the arguments: deterministic, isolated, non-mutating.

frame     : pattern I - a calculator whose solver object carries ARBITRARY residual state (every instance attribute any method assigns is
            set to a symbolic garbage value / poisoned list) and arbitrary process globals runs ONE real public operation on a carrier; the
            result equals that of a fresh calculator and contains no garbage symbol.  The post-state is again "some residual state", so
            this one step covers every finite history (including histories with operations that raised).
args      : deep snapshot of every argument object (shot, weapon, ammo, drag model and table, atmosphere, winds, shipped tables) before and
            after each operation: identical, except weapon.zero_elevation after set_weapon_zero.
footprint : the write footprint of an operation (diff of deep snapshots of every pre-existing object reachable from the calculator, the
            arguments and the package's module globals): only the calculator's own solver object (+ the stored zero); two calculators owned
            by distinct threads therefore share no written location.  A two-thread run is compared with the serial one (test strength).
"""
import sys
import threading

from symx.runner import harness
from harness.common import pybc, with_preferred
from harness import carriers
from harness.c07 import snap

FUNCS = ['py_ballisticcalc.trajectory_calc._trajectory_calc.TrajectoryCalc._init_trajectory',
         'py_ballisticcalc.trajectory_calc._trajectory_calc.TrajectoryCalc.zero_angle',
         'py_ballisticcalc.trajectory_calc._trajectory_calc.TrajectoryCalc._integrate',
         'py_ballisticcalc.interface.Calculator.*', 'py_ballisticcalc.conditions.Shot.winds']

SOLVER_ATTRS = None


def _solver_attrs():
    """instance attributes any method of the solver object assigns: collected from a used calculator (fire + zero + failing fire)"""
    global SOLVER_ATTRS
    if SOLVER_ATTRS is None:
        p = pybc()
        calc, shot = carriers.make('A', 100.0, 'two')
        calc.fire(shot, p.Unit.Foot(300.0), p.Unit.Foot(100.0), True)
        calc.set_weapon_zero(shot, p.Unit.Yard(100.0))
        SOLVER_ATTRS = sorted(k for k in vars(calc._calc) if k not in ('_config', 'gravity_vector'))
    return SOLVER_ATTRS


def _poison(ctx, calc):
    """arbitrary residual state"""
    names = _solver_attrs()
    g = {}
    for k in names:
        cur = getattr(calc._calc, k, None)
        if isinstance(cur, list) or k.endswith('mach_list') or k in ('_curve', '_table_data'):
            v = [ctx.real(f'garbage_{k.strip("_")}', -1e6, 1e6)]
        else:
            v = ctx.real(f'garbage_{k.strip("_")}', -1e6, 1e6)
        setattr(calc._calc, k, v)
        g[k] = v
    return g


def _rows_equal(ctx, a, b):
    if len(a) != len(b):
        return False
    ok = True
    for ra, rb in zip(a, b):
        for x, y in zip(ra, rb):
            xv, yv = getattr(x, 'raw_value', x), getattr(y, 'raw_value', y)
            if ctx.is_symbolic(xv) or ctx.is_symbolic(yv):
                e = ctx.same_term(xv, yv)
            else:
                e = (xv == yv)
            if not e:
                return False
    return ok


def _cfg_frame(tier):
    out = []
    ops = ['fire', 'fire_extra', 'zero', 'elevation', 'fire_raises']
    plan = [('A', 100.0, 'two', {}), ('B', 60.0, 'left', {}), ('E', 100.0, 'none', {}), ('C', 100.0, 'tail', dict(relative_deg=30.0))] if tier == 'quick' else \
        [('A', 100.0, 'two', {}), ('B', 60.0, 'left', {}), ('E', 100.0, 'none', {}), ('C', 100.0, 'tail', dict(relative_deg=30.0)), ('A', 30.0, 'none', dict(look_deg=20.0))]
    for (c, step, wind, kw) in plan:
        for op in ops:
            for preset in ('imperial', 'metric'):
                out.append({'carrier': c, 'step_ft': step, 'wind': wind, 'kw': kw, 'op': op, 'preset': preset})
    # a measured drag table that does not start at Mach 0 (the caller's table must not gain, lose or change points)
    for op in ('fire', 'zero', 'elevation'):
        out.append({'carrier': 'G', 'step_ft': 20.0, 'wind': 'none', 'kw': dict(relative_deg=2.0), 'op': op, 'preset': 'imperial'})
    return out


@harness('C10.frame', 'C10', configs=_cfg_frame, functions=FUNCS, cost=8, engine_opts={'div_check': False, 'nl_axioms_in_feasibility': False, 'unit_timeout': 150},
         must_reach=['check:same_as_fresh_calculator', 'check:no_garbage_in_result'],
         bounds='one public operation (fire plain / extra, set_weapon_zero, barrel_elevation_for_target, a fire that raises RangeError) on carriers A, B, E (bullet without dimensions in a rifled barrel) '
                '[thorough: + C, inclined A] from an arbitrary residual solver state (17 attributes symbolic / poisoned) with the global default step changed after '
                'creation and two preferred-unit presets; inductive => every finite history',
         assumptions=['the residual state of the solver object is exactly its instance attributes (collected from a used calculator); Calculator holds only _config and _calc'])
def c10_frame(ctx, carrier, step_ft, wind, kw, op, preset):
    p = pybc()
    U = p.Unit
    import py_ballisticcalc.trajectory_calc as tcpkg
    R, S = U.Foot(5 * step_ft), U.Foot(1.5 * step_ft)
    cfg_raise = {'cMinimumVelocity': 1e5} if op == 'fire_raises' else None

    def operate(calc, shot):
        try:
            if op in ('fire', 'fire_raises'):
                return ('rows', calc.fire(shot, R, S).trajectory)
            if op == 'fire_extra':
                return ('rows', calc.fire(shot, R, S, True).trajectory)
            if op == 'zero':
                return ('angle', calc.set_weapon_zero(shot, U.Foot(3 * step_ft)).raw_value)
            return ('angle', calc.barrel_elevation_for_target(shot, U.Foot(3 * step_ft)).raw_value)
        except p.RangeError as e:
            return ('range_error', (e.reason, e.incomplete_trajectory))

    with with_preferred():
        getattr(p, 'loadMetricUnits' if preset == 'metric' else 'loadImperialUnits')()
        used, shot1 = carriers.make(carrier, step_ft, wind, config=cfg_raise, **kw)
        fresh, shot2 = carriers.make(carrier, step_ft, wind, config=cfg_raise, **kw)
        try:
            # the atmosphere object of the used side has already served ANOTHER shot (steeper, other load): it must carry no imprint
            other_calc, other_shot = carriers.make('C', step_ft, 'none', relative_deg=40.0)
            other_shot.atmo = shot1.atmo
            other_calc.fire(other_shot, U.Foot(8 * step_ft), U.Foot(2 * step_ft))
            garbage = _poison(ctx, used)
            # process globals changed AFTER the calculators were created must not matter
            tcpkg.set_global_max_calc_step_size(U.Foot(ctx.real('garbage_global_step', 1e-3, 1e3)))
            got = operate(used, shot1)
            want = operate(fresh, shot2)
        finally:
            tcpkg.reset_globals()
    ctx.check('same_kind_of_outcome', got[0] == want[0], info={'got': got[0], 'want': want[0]})
    if got[0] == 'rows':
        ctx.check('same_as_fresh_calculator', _rows_equal(ctx, got[1], want[1]))
        leak = any(ctx.is_symbolic(getattr(x, 'raw_value', x)) for r in got[1] for x in r)
        ctx.check('no_garbage_in_result', not leak)
    elif got[0] == 'angle':
        ctx.check('same_as_fresh_calculator', (not ctx.is_symbolic(got[1])) and got[1] == want[1])
        ctx.check('no_garbage_in_result', not ctx.is_symbolic(got[1]))
        if op == 'zero':
            ctx.check('stored_zero_same_as_fresh', shot1.weapon.zero_elevation.raw_value == shot2.weapon.zero_elevation.raw_value)
    else:
        ctx.check('same_as_fresh_calculator', got[1][0] == want[1][0] and _rows_equal(ctx, got[1][1], want[1][1]))
        ctx.check('no_garbage_in_result', not any(ctx.is_symbolic(getattr(x, 'raw_value', x)) for r in got[1][1] for x in r))
    # and once more on the now long-used calculator (repetition is bit-identical)
    again = operate(used, shot1)
    if again[0] == 'rows':
        ctx.check('repeat_is_identical', _rows_equal(ctx, again[1], got[1]))


def _graph(p, calc, shot, extra_objs=()):
    import py_ballisticcalc.drag_tables as dt
    g = {'shot': shot, 'tables': {k: getattr(dt, k) for k in ('TableG1', 'TableG7')}}
    for i, o in enumerate(extra_objs):
        g[f'arg{i}'] = o
    return g


def _cfg_args(tier):
    out = []
    for (c, step, wind, kw) in [('A', 100.0, 'two_unsorted', {}), ('B', 60.0, 'left', {}), ('C', 100.0, 'tail', dict(relative_deg=30.0))]:
        for op in ('fire', 'fire_extra', 'zero', 'elevation', 'fire_raises', 'danger_space', 'zero_raises', 'elevation_raises'):
            for preset in ('imperial', 'metric'):
                out.append({'carrier': c, 'step_ft': step, 'wind': wind, 'kw': kw, 'op': op, 'preset': preset})
    # a measured drag table that does not start at Mach 0 (the caller's table must not gain, lose or change points)
    for op in ('fire', 'zero', 'elevation'):
        out.append({'carrier': 'G', 'step_ft': 20.0, 'wind': 'none', 'kw': dict(relative_deg=2.0), 'op': op, 'preset': 'imperial'})
    return out


@harness('C10.args', 'C10', configs=_cfg_args, functions=FUNCS, cost=8, engine_opts={'div_check': False, 'nl_axioms_in_feasibility': False},
         must_reach=['check:arguments_unchanged', 'check:zeroing_changes_only_the_stored_zero'],
         bounds='deep snapshot (every quantity magnitude and display unit, every field, list lengths, table points) of shot / weapon / ammo / drag model / atmosphere / '
                'winds / shipped tables and of the range / step argument quantities before and after each operation, on carriers A, B, C with SYMBOLIC range and '
                'record step (every cell of the request plane)')
def c10_args(ctx, carrier, step_ft, wind, kw, op, preset):
    p = pybc()
    U = p.Unit
    cfg_raise = {'cMinimumVelocity': 1e5} if op in ('fire_raises', 'zero_raises', 'elevation_raises') else None
    with with_preferred():
        getattr(p, 'loadMetricUnits' if preset == 'metric' else 'loadImperialUnits')()
        calc, shot = carriers.make(carrier, step_ft, wind, config=cfg_raise, **kw)
        # a hold-over on the shot, and a zero-elevation quantity that the caller and a second weapon also hold (aliasing)
        shot.relative_angle = U.Radian(0.002)
        shared_zero = shot.weapon.zero_elevation
        shared_raw = shared_zero.raw_value
        other_weapon = p.Weapon(U.Inch(1.0), U.Inch(9.0), shared_zero)
        if op in ('zero', 'elevation', 'zero_raises', 'elevation_raises'):
            # a symbolic zero distance would make the whole physics symbolic: concrete here (the request plane is covered by the fire operations)
            ctx.real('range_ft', 0, 1)
            R, S = U.Foot(3.0 * step_ft), U.Foot(step_ft)
        else:
            R = U.Foot(ctx.real('range_ft', 2 * step_ft, 5 * step_ft))
            S = U.Foot(ctx.real('record_step_ft', step_ft, 5 * step_ft))
        before = snap(_graph(p, calc, shot))
        r_raw, s_raw = R.raw_value, S.raw_value
        try:
            if op in ('fire', 'fire_raises'):
                calc.fire(shot, R, S)
            elif op == 'fire_extra':
                calc.fire(shot, R, S, True)
            elif op in ('zero', 'zero_raises'):
                calc.set_weapon_zero(shot, R)
            elif op in ('elevation', 'elevation_raises'):
                calc.barrel_elevation_for_target(shot, R)
            else:
                calc.fire(shot, R, S, True).danger_space(U.Foot(1.5 * step_ft), U.Inch(20.0))
        except (p.RangeError, ArithmeticError):
            pass
        after = snap(_graph(p, calc, shot))
    keys = sorted(before)
    ctx.check('same_structure', keys == sorted(after))
    changed = []
    for k in keys:
        a, b = before[k], after.get(k)
        same = ctx.same_term(a, b) if (ctx.is_symbolic(a) or ctx.is_symbolic(b) or isinstance(a, float)) else (a == b)
        if not same:
            changed.append(k)
    if op == 'zero':
        ctx.check('zeroing_changes_only_the_stored_zero', all('zero_elevation' in k for k in changed), info={'changed': changed[:6]})
        ctx.reach('check:arguments_unchanged')
    else:
        ctx.check('arguments_unchanged', changed == [], info={'changed': changed[:6]})
        ctx.reach('check:zeroing_changes_only_the_stored_zero')
    # a quantity that was the stored zero before the call is still held by the caller and by another weapon: its magnitude is untouched
    ctx.check('previous_zero_quantity_keeps_its_magnitude', ctx.same_term(shared_zero.raw_value, shared_raw)
              and other_weapon.zero_elevation is shared_zero, info={'op': op})
    # argument quantities passed for range / step keep their magnitude (their display unit may be re-labelled)
    ctx.check('request_quantities_keep_magnitude', ctx.same_term(R.raw_value, r_raw) and ctx.same_term(S.raw_value, s_raw))


def _module_globals():
    out = {}
    for name, m in sorted(sys.modules.items()):
        if not name.startswith('py_ballisticcalc') or m is None:
            continue
        for k, v in vars(m).items():
            if k.startswith('__') or callable(v) or isinstance(v, type(sys)):
                continue
            if isinstance(v, (int, float, str, bool, type(None))):
                out[f'{name}.{k}'] = v
        # class attributes (constants such as temperature clamps, shared defaults) of every class the package defines
        for k, v in vars(m).items():
            if isinstance(v, type) and getattr(v, '__module__', '').startswith('py_ballisticcalc'):
                for ak, av in vars(v).items():
                    if ak.startswith('__') or callable(av) or isinstance(av, (property, staticmethod, classmethod)):
                        continue
                    if isinstance(av, (int, float, str, bool, type(None))) and not isinstance(av, p_enum()):
                        out[f'{v.__module__}.{v.__qualname__}.{ak}'] = av
    p = pybc()
    for k in p.PreferredUnits.__dataclass_fields__:
        out[f'PreferredUnits.{k}'] = int(getattr(p.PreferredUnits, k))
    return out


def p_enum():
    import enum
    return enum.Enum


def _cfg_fp(tier):
    return [{'carrier': c, 'step_ft': s, 'wind': w} for (c, s, w) in [('A', 100.0, 'two'), ('B', 60.0, 'left')]]


@harness('C10.footprint', 'C10', configs=_cfg_fp, functions=FUNCS, cost=3,
         must_reach=['check:writes_confined_to_own_solver_object', 'check:threads_equal_serial'],
         bounds='write footprint of fire / zero / failing fire on carriers A, B and of an unrelated vacuum shot, a modified standard atmosphere and a multi-BC model built along the way (diff of snapshots of every pre-existing reachable object, the package module globals and the scalar class attributes of every class of the package); '
                'two calculators in two threads (switch interval 1e-6 s, 3 rounds) vs serial: bit-identical - TEST strength for the schedules',
         outside=['thread interleavings are not enumerated: the claim rests on the disjoint write footprints (decided) plus CPython attribute-store atomicity',
                  'threads sharing one Shot / Weapon object while zeroing'])
def c10_footprint(ctx, carrier, step_ft, wind):
    p = pybc()
    U = p.Unit
    calc, shot = carriers.make(carrier, step_ft, wind, look_deg=6.0, cant_deg=3.0)      # not the same sight line / cant as the other calculator's shot
    other, oshot = carriers.make(carrier, step_ft, wind)
    other.fire(oshot, U.Foot(3 * step_ft), U.Foot(step_ft))
    g0 = _module_globals()
    s0 = snap({'shot': shot, 'other_calc': vars(other._calc), 'other_shot': oshot})
    calc.fire(shot, U.Foot(4 * step_ft), U.Foot(step_ft), True)
    calc.barrel_elevation_for_target(shot, U.Foot(3 * step_ft))
    try:
        p.Calculator(_config={'max_calc_step_size_feet': step_ft, 'cMinimumVelocity': 1e5}).fire(shot, U.Foot(4 * step_ft), U.Foot(step_ft))
    except p.RangeError:
        pass
    gm = _module_globals()
    sm = snap({'shot': shot, 'other_calc': vars(other._calc), 'other_shot': oshot})
    ctx.check('writes_confined_to_own_solver_object', g0 == gm and s0 == sm,
              info={'after': 'fire / zero / failing fire of a shot on another sight line', 'globals_changed': [k for k in g0 if g0[k] != gm.get(k)][:5],
                    'objects_changed': [k for k in s0 if s0[k] != sm.get(k)][:5]})
    # an unrelated shot in a vacuum (its own calculator, its own objects), other atmospheres and drag models built along the way
    vshot = p.Shot(p.Weapon(U.Inch(2.0)), p.Ammo(p.DragModel(0.3, p.TableG1), U.FPS(2500.0)), atmo=p.Vacuum(U.Foot(1000.0), U.Celsius(5.0)))
    p.Calculator(_config={'max_calc_step_size_feet': step_ft}).fire(vshot, U.Foot(3 * step_ft), U.Foot(step_ft))
    p.Atmo.icao(U.Foot(2500.0)).humidity = 40
    p.DragModelMultiBC([p.BCPoint(0.3, Mach=1.0), p.BCPoint(0.28, Mach=2.0)], p.TableG7)
    g1 = _module_globals()
    s1 = snap({'shot': shot, 'other_calc': vars(other._calc), 'other_shot': oshot})
    ctx.check('writes_confined_to_own_solver_object', g0 == g1 and s0 == s1,
              info={'globals_changed': [k for k in g0 if g0[k] != g1.get(k)][:5], 'objects_changed': [k for k in s0 if s0[k] != s1.get(k)][:5]})
    # threads: each thread owns its calculator and shot
    def job(out, i):
        # every thread owns its calculator and its shot; the shots differ (sight line, cant), as they would between real users
        c, s = carriers.make(carrier, step_ft, wind, fresh=False, look_deg=4.0 * i, cant_deg=2.0 * i)
        rows = []
        for _ in range(3):
            rows.append([tuple(getattr(x, 'raw_value', x) for x in r) for r in c.fire(s, U.Foot(4 * step_ft), U.Foot(step_ft), True).trajectory])
            c.set_weapon_zero(s, U.Foot(3 * step_ft))
            rows.append(s.weapon.zero_elevation.raw_value)
        out[i] = rows
    serial = {}
    for i in range(3):
        job(serial, i)
    old = sys.getswitchinterval()
    sys.setswitchinterval(1e-6)
    try:
        res = {}
        ts = [threading.Thread(target=job, args=(res, i)) for i in range(3)]
        for t in ts:
            t.start()
        for t in ts:
            t.join()
    finally:
        sys.setswitchinterval(old)
    ctx.check('threads_equal_serial', all(res.get(i) == serial[i] for i in range(3)))


def _cfg_kept(tier):
    return [{'carrier': c, 'step_ft': s, 'wind': w, 'dv': dv} for (c, s, w, dv) in [('A', 100.0, 'two', 150.0), ('B', 60.0, 'left', 60.0)]]


@harness('C10.kept_results', 'C10', configs=_cfg_kept, functions=FUNCS, cost=4, engine_opts={'div_check': False, 'nl_axioms_in_feasibility': False},
         must_reach=['check:results_kept_by_the_caller_are_not_touched_by_later_calls', 'partial_kept'],
         bounds='carriers A, B with a minimum-velocity limit a little below the muzzle velocity: a fire that returns (SYMBOLIC range short of the limit), a fire that raises RangeError '
                '(the partial trajectory kept by the caller, also wrapped in a HitResult as documented), then further computations on the SAME calculator (another fire with a '
                'symbolic range, a zero request): the rows the caller kept - lists and row objects - are exactly what they were')
def c10_kept_results(ctx, carrier, step_ft, wind, dv):
    p = pybc()
    U = p.Unit
    c0 = carriers.CARRIERS[carrier]
    calc, shot = carriers.make(carrier, step_ft, wind, config={'cMinimumVelocity': c0['mv_fps'] - dv})
    R1 = ctx.real('range1_ft', step_ft * 1.01, 2 * step_ft)
    R2 = ctx.real('range2_ft', step_ft * 1.01, 2 * step_ft)

    def rowsnap(rows):
        return [tuple(getattr(x, 'raw_value', x) for x in r) for r in rows]
    kept = []
    try:
        ok = calc.fire(shot, U.Foot(R1), U.Foot(step_ft))
        kept.append(('returned', ok.trajectory, list(ok.trajectory), rowsnap(ok.trajectory)))
    except p.RangeError as e:
        kept.append(('partial', e.incomplete_trajectory, list(e.incomplete_trajectory), rowsnap(e.incomplete_trajectory)))
    try:
        calc.fire(shot, U.Foot(40 * step_ft), U.Foot(step_ft))
    except p.RangeError as e:
        ctx.reach('partial_kept')
        hr = p.HitResult(shot, e.incomplete_trajectory, False)
        kept.append(('partial', e.incomplete_trajectory, list(e.incomplete_trajectory), rowsnap(e.incomplete_trajectory)))
        kept.append(('wrapped partial', hr.trajectory, list(hr.trajectory), rowsnap(hr.trajectory)))
    # later computations on the same calculator
    for later in ('fire', 'fire_extra', 'zero'):
        try:
            if later == 'fire':
                calc.fire(shot, U.Foot(R2), U.Foot(step_ft))
            elif later == 'fire_extra':
                calc.fire(shot, U.Foot(R2), U.Foot(step_ft / 2), True)
            else:
                calc.barrel_elevation_for_target(shot, U.Foot(1.5 * step_ft))
        except (p.RangeError, ArithmeticError):
            pass
        for (what, lst, items, snap0) in kept:
            same = len(lst) == len(items) and all(a is b for a, b in zip(lst, items))
            now = rowsnap(lst)
            same = same and len(now) == len(snap0) and all(len(a) == len(b) and all(ctx.same_term(x, y) if (ctx.is_symbolic(x) or ctx.is_symbolic(y) or isinstance(x, float)) else x == y
                                                                                     for x, y in zip(a, b)) for a, b in zip(now, snap0))
            ctx.check('results_kept_by_the_caller_are_not_touched_by_later_calls', same, info={'kept': what, 'after': later, 'rows_then': len(snap0), 'rows_now': len(lst)})


def _cfg_ro(tier):
    return [{'n': n} for n in ((3, 4) if tier == 'quick' else (3, 4, 5, 6))]


@harness('C10.result_object', 'C10', configs=_cfg_ro, functions=['py_ballisticcalc.trajectory_data._trajectory_data.HitResult.index_at_distance',
                                                                  'py_ballisticcalc.trajectory_data._trajectory_data.HitResult.get_at_distance',
                                                                  'py_ballisticcalc.trajectory_data._trajectory_data.HitResult.danger_space'], cost=4,
         must_reach=['check:look_up_answer_independent_of_earlier_look_ups'],
         bounds='a result object over N = 3..4 (quick) / 3..6 (thorough) symbolic rows (non-decreasing distances) queried twice with symbolic distances in either order (plus a danger-space '
                'query in between): the second answer equals the answer of a freshly built result object over the same rows')
def c10_result_object(ctx, n):
    from harness.common import mkrow
    p = pybc()
    U = p.Unit
    d = []
    for i in range(n):
        x = ctx.real(f'd{i}', 0, 1e5)
        if i:
            ctx.assume(x >= d[-1])
        d.append(x)
    rows = [mkrow(p, time=float(i), dist_ft=d[i], drop_ft=float(-i)) for i in range(n)]
    q1, q2 = ctx.real('query1_ft', 0, 2e5), ctx.real('query2_ft', 0, 2e5)
    used = p.HitResult(None, rows, True)
    used.index_at_distance(U.Foot(q1))
    try:
        used.danger_space(U.Foot(q1), U.Foot(1.0), U.Radian(0.0))
    except ArithmeticError:
        pass
    got = used.index_at_distance(U.Foot(q2))
    want = p.HitResult(None, rows, True).index_at_distance(U.Foot(q2))
    ctx.check('look_up_answer_independent_of_earlier_look_ups', got == want, info={'got': got, 'want': want})
