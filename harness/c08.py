"""C08 - atmosphere reproduces the ISA and is self-consistent across altitude.

Real Atmo methods on symbolic altitude / temperature / pressure / humidity with pow, sqrt, exp summarised (sound axioms only).
What the solver decides exactly: the ISA *shape* and every constant (temperature is linear: decided to 1e-4 for all altitudes;
speed-of-sound constant; base and exponent of the barometric formula; dry-air density as a rational function of (p, T));
station shortcut, humidity normalisation and rejection, vacuum, monotonicity.  The step from "base and exponent agree to eps"
to "pow(base, exponent) agrees to 1e-4" is a calculus lemma listed as trusted (see `trusted`), not decided by the solver.
"""
from fractions import Fraction as F

from symx.runner import harness
from symx.stubs import symmath as M
from harness.common import pybc
from ref import si

FUNCS = ['py_ballisticcalc.conditions.Atmo.*', 'py_ballisticcalc.conditions.Vacuum.*']

# ISA / ICAO constants written from the standard (not from /repo)
T0 = F(28815, 100)             # K
LAPSE = F(-65, 10000)          # K/m
P0 = F(101325, 100)            # hPa
G0 = si.G0
MAIR = F(289644, 10 ** 7)      # kg/mol
RGAS = F(831432, 10 ** 5)      # J/(mol K): R* of the 1976 standard atmosphere / ICAO
EXPO = G0 * MAIR / (RGAS * -LAPSE)     # 5.25588
GAMMA = F(14, 10)
RHO0 = F(1225, 1000)           # kg/m^3
FOOT = si.FOOT
LN_B_MAX = F(31, 100)          # |ln b| <= 0.31 for the barometric base b in [0.74, 1.04]  (ln 0.74 = -0.3011)


def _alt(ctx, name='altitude_ft'):
    return ctx.real(name, -1400, 36000)


@harness('C08.temperature', 'C08', functions=FUNCS, must_reach=['check:isa_temperature'],
         bounds='all altitudes in [-1400, 36000] ft: standard_temperature is linear, compared with ISA T0 + L*h at 1e-4 relative (kelvin)')
def c08_temperature(ctx):
    p = pybc()
    h = _alt(ctx)
    got = p.Atmo.standard_temperature(p.Distance.Foot(h)) >> p.Temperature.Kelvin
    want = T0 + LAPSE * (h * FOOT)
    ctx.check_eq('isa_temperature', got, want, rel=1e-4)
    ctx.check_eq('isa_temperature_tight', got, want, rel=1e-6)


@harness('C08.sound', 'C08', functions=FUNCS, must_reach=['check:isa_speed_of_sound'],
         bounds='all temperatures in [-70, 60] C: machF / machC / machK = c*sqrt(T) with the ISA constant sqrt(gamma*R/M) at 1e-4 relative',
         stubs=['sqrt summarised by r >= 0, r*r = x (exact for the solver)'])
def c08_sound(ctx):
    p = pybc()
    tk = ctx.real('kelvin', 203, 334)
    # ISA: a = sqrt(gamma R T / M) m/s
    want = M.sqrt(GAMMA * RGAS * tk / MAIR)
    ctx.check_eq('isa_speed_of_sound', p.Atmo.machK(tk), want, rel=1e-4)
    ctx.check_eq('isa_speed_of_sound', p.Atmo.machC(tk - F(27315, 100)), want, rel=1e-4, info={'via': 'machC'})
    f = (tk * F(9, 5)) - F(45967, 100)
    ctx.check_eq('isa_speed_of_sound', p.Atmo.machF(f) * FOOT, want, rel=1e-4, info={'via': 'machF'})


@harness('C08.pressure_form', 'C08', functions=FUNCS, must_reach=['check:barometric_base', 'check:barometric_exponent', 'check:sensitivity_budget'],
         bounds='all altitudes in [-1400, 36000] ft: standard_pressure = P0 * pow(base, exponent) with base and exponent compared with ISA; '
                'the 1e-4 agreement of the pressure itself follows by the trusted sensitivity lemma from the decided epsilons',
         stubs=['pow(base, 5.255876) summarised (observed through a recording stub of math.pow)'],
         outside=['numeric value of pow: |d ln P| <= E*|db|/b + |ln b|*|dE| (calculus lemma, trusted), with b in [0.74,1.04]'])
def c08_pressure_form(ctx):
    p = pybc()
    import py_ballisticcalc.conditions as cond
    h = _alt(ctx)
    seen = []
    real_pow = cond.math.pow

    class _Rec:
        def __getattr__(self, k):
            return getattr(M, k)

        def pow(self, b, e):
            seen.append((b, e))
            return real_pow(b, e)
    old = cond.math
    cond.math = _Rec()
    try:
        got = p.Atmo.standard_pressure(p.Distance.Foot(h)) >> p.Pressure.hPa
    finally:
        cond.math = old
    ctx.check('one_pow', len(seen) == 1)
    base, expo = seen[0]
    want_base = 1 + LAPSE * (h * FOOT) / T0
    eps_b, eps_e = F(1, 10 ** 7), F(5, 10 ** 6)
    ctx.check_eq('barometric_base', base, want_base, rel=float(eps_b))
    ctx.check('base_in_range', (base > 0.74) & (base < 1.04))
    ctx.check('barometric_exponent', ctx.abs(expo - EXPO) <= eps_e)
    ctx.check_eq('sea_level_pressure_factor', got, P0 * (M.pow(base, expo) if ctx.symbolic else real_pow(base, expo)), rel=1e-6)
    # budget of the trusted lemma: E*eps_b + |ln b|max * eps_E + unit factor error <= 1e-4
    ctx.check('sensitivity_budget', EXPO * eps_b * 2 + LN_B_MAX * eps_e + F(1, 10 ** 6) <= F(1, 10 ** 4))


@harness('C08.density_form', 'C08', functions=FUNCS, must_reach=['check:dry_density_is_ideal_gas'], engine_opts={'div_check': False, 'pin_check': True},
         bounds='calculate_air_density(t, p, 0) for all t in [-70, 60] C and p in [200, 1100] hPa vs the ideal-gas density p*M/(R*T) at 6e-5 relative '
                '(rational function of two reals; z3 nlsat); density ratio = density / 1.225',
         stubs=['exp summarised (multiplied by humidity 0)'])
def c08_density_form(ctx):
    p = pybc()
    t = ctx.real('celsius', -70, 60)
    pr = ctx.real('hPa', 200, 1100)
    got = p.Atmo.calculate_air_density(t, pr, 0.0)
    want = (pr * 100) * MAIR / (RGAS * (t + F(27315, 100)))
    ctx.check_eq('dry_density_is_ideal_gas', got, want, rel=6e-5)
    ctx.check('isa_sea_level_density', ctx.implies((t == 15) & (pr == P0), ctx.abs(got / RHO0 - 1) <= F(1, 10 ** 4)))


def _cfg_station(tier):
    return [{'zone': z} for z in ('at', 'near', 'far')]


@harness('C08.station', 'C08', configs=_cfg_station, functions=FUNCS, engine_opts={'div_check': False, 'pin_check': True},
         must_reach=['check:station_values', 'check:shortcut_within_30ft', 'check:far_structure'],
         bounds='a station with arbitrary symbolic conditions (altitude, temperature, pressure) queried at its own altitude, within 30 ft, and '
                'beyond: shortcut returns the station values; beyond 30 ft the returned terms have the lapse-rate / barometric structure',
         stubs=['sqrt/pow/exp summarised'])
def c08_station(ctx, zone):
    p = pybc()
    a0 = _alt(ctx, 'station_ft')
    tc = ctx.real('station_c', -60, 60)
    pr = ctx.real('station_hpa', 500, 1100)
    atmo = p.Atmo(p.Distance.Foot(a0), p.Pressure.hPa(pr), p.Temperature.Celsius(tc), 0.0)
    if zone == 'at':
        d, m = atmo.get_density_factor_and_mach_for_altitude(a0)
        ctx.check('station_values', ctx.same_term(d, atmo.density_ratio) and ctx.same_term(m, atmo._mach))
        ctx.check_eq('station_mach_property', atmo.mach >> p.Velocity.FPS, atmo._mach, rel=1e-12)
    elif zone == 'near':
        a = ctx.real('query_ft', -1500, 36100)
        ctx.assume(ctx.abs(a - a0) < 30)
        d, m = atmo.get_density_factor_and_mach_for_altitude(a)
        ctx.check('shortcut_within_30ft', ctx.same_term(d, atmo.density_ratio) and ctx.same_term(m, atmo._mach))
    else:
        a = _alt(ctx, 'query_ft')
        ctx.assume(ctx.abs(a - a0) >= 30)
        lapse_ft = LAPSE * FOOT
        tq = tc + F(27315, 100) + (a - a0) * lapse_ft            # K at the query altitude (ISA lapse from the station)
        ctx.assume(tq > 184)                                      # above the model's lowest temperature (-130 F), where it clamps
        d, m = atmo.get_density_factor_and_mach_for_altitude(a)
        ctx.check_eq('far_structure', m * FOOT, M.sqrt(tq_code(ctx, atmo, a)) * F(200467, 10 ** 4) * (FOOT * F(32808399, 10 ** 7)), rel=1e-9,
                     info={'what': 'mach = c*sqrt(T(query))'})
        ctx.check_eq('lapse_rate_is_isa', tq_code(ctx, atmo, a), tq, rel=1e-6)
        # density: station ratio * (T0/T) * (p/p0), p/p0 = pow(1 + L*(a-a0)/T0, E)
        base = 1 + (-0.0019812) * (a - a0) / (tc + 273.15)      # the doubles the code uses (the ISA comparison is far_base_is_isa)
        pw = M.pow(base, 5.255876)
        ctx.check_eq('far_structure', d, atmo.density_ratio * ((tc + F(27315, 100)) * (pr * pw)) / (pr * tq_code(ctx, atmo, a)), rel=1e-9,
                     info={'what': 'density = station * T0/T * p/p0'})
        ctx.check_eq('far_base_is_isa', base, 1 + lapse_ft * (a - a0) / (tc + F(27315, 100)), rel=1e-6)


def tq_code(ctx, atmo, a):
    return atmo.temperature_at_altitude(a) + F(27315, 100)


@harness('C08.standard_consistency', 'C08', functions=FUNCS, engine_opts={'div_check': False, 'pin_check': True},
         must_reach=['check:same_sound_speed_as_standard_station', 'check:pressure_bases_multiply'],
         bounds='a STANDARD station at symbolic altitude a0 predicting altitude a (|a - a0| >= 30 ft) vs a standard station created at a: '
                'speed of sound (decided, 1e-5); pressure: the two barometric bases multiply to the base of the direct formula (decided, 1e-6) - '
                'the equality of the pressures then needs pow(x,c)pow(y,c)=pow(xy,c) and the trusted sensitivity lemma',
         stubs=['sqrt summarised (exact axioms); pow summarised'])
def c08_standard_consistency(ctx):
    p = pybc()
    a0 = _alt(ctx, 'station_ft')
    a = _alt(ctx, 'query_ft')
    ctx.assume(ctx.abs(a - a0) >= 30)
    st = p.Atmo.icao(p.Distance.Foot(a0))
    d, m = st.get_density_factor_and_mach_for_altitude(a)
    direct_m = p.Atmo.machF(p.Atmo.standard_temperature(p.Distance.Foot(a)) >> p.Temperature.Fahrenheit)
    ctx.check_eq('same_sound_speed_as_standard_station', m, direct_m, rel=1e-5)
    # bases
    lapse_ft = F(-19812, 10 ** 7)
    t_a0 = (p.Atmo.standard_temperature(p.Distance.Foot(a0)) >> p.Temperature.Kelvin)
    b0 = 1 + F(-65, 10000) * (a0 * FOOT) / T0
    b1 = 1 + lapse_ft * (a - a0) / t_a0
    b2 = 1 + F(-65, 10000) * (a * FOOT) / T0
    ctx.check_eq('pressure_bases_multiply', b0 * b1, b2, rel=1e-6)
    ctx.check_eq('temperature_consistent', st.temperature_at_altitude(a) + F(27315, 100),
                 p.Atmo.standard_temperature(p.Distance.Foot(a)) >> p.Temperature.Kelvin, rel=1e-6)


@harness('C08.standard_twice', 'C08', functions=FUNCS, engine_opts={'div_check': False, 'pin_check': True},
         must_reach=['check:standard_atmosphere_again_is_standard'],
         bounds='the standard atmosphere for a symbolic altitude is requested, that object is then MODIFIED by its owner (humidity set to a symbolic '
                'percentage) and used, and the standard atmosphere for the same altitude is requested again (Atmo.icao, Atmo.standard, the default atmosphere of a new Shot): '
                'every request gives the standard values - nothing of the first object\'s later life shows',
         stubs=['sqrt/pow/exp summarised'])
def c08_standard_twice(ctx):
    p = pybc()
    a0 = _alt(ctx, 'station_ft')
    h = ctx.real('humidity_percent', 0, 100)
    first = p.Atmo.icao(p.Distance.Foot(a0))
    ref = dict(h=first.humidity, d=first.density_ratio, m=first.mach, t=first.temperature.raw_value, pr=first.pressure.raw_value)
    first.humidity = h
    for door in ('icao', 'standard'):
        again = getattr(p.Atmo, door)(p.Distance.Foot(a0))
        ctx.check('standard_atmosphere_again_is_standard', again is not first, info={'door': door, 'what': 'a new object'})
        ctx.check_eq('standard_atmosphere_again_is_standard', again.humidity, ref['h'], info={'door': door, 'what': 'humidity'})
        ctx.check('standard_atmosphere_again_is_standard', ctx.same_term(again.density_ratio, ref['d']), info={'door': door, 'what': 'density ratio'})
        ctx.check('standard_atmosphere_again_is_standard', ctx.same_term(again.mach, ref['m']), info={'door': door, 'what': 'mach'})
        ctx.check('standard_atmosphere_again_is_standard', ctx.same_term(again.temperature.raw_value, ref['t']), info={'door': door, 'what': 'temperature'})
        ctx.check('standard_atmosphere_again_is_standard', ctx.same_term(again.pressure.raw_value, ref['pr']), info={'door': door, 'what': 'pressure'})
    # the default atmosphere of a shot: sea-level standard, its own object, whatever another shot's owner did to theirs
    ammo = p.Ammo(p.DragModel(0.3, p.TableG7), p.Velocity.FPS(2700))
    s1 = p.Shot(p.Weapon(), ammo)
    sea = dict(h=s1.atmo.humidity, d=s1.atmo.density_ratio, m=s1.atmo.mach)
    s1.atmo.humidity = h
    s2 = p.Shot(p.Weapon(), ammo)
    ctx.check('standard_atmosphere_again_is_standard', s2.atmo is not s1.atmo, info={'door': 'Shot default', 'what': 'a new object'})
    ctx.check_eq('standard_atmosphere_again_is_standard', s2.atmo.humidity, sea['h'], info={'door': 'Shot default', 'what': 'humidity'})
    ctx.check('standard_atmosphere_again_is_standard', ctx.same_term(s2.atmo.density_ratio, sea['d']), info={'door': 'Shot default', 'what': 'density ratio'})
    ctx.check('standard_atmosphere_again_is_standard', ctx.same_term(s2.atmo.mach, sea['m']), info={'door': 'Shot default', 'what': 'mach'})


@harness('C08.humidity', 'C08', functions=FUNCS, must_reach=['check:rejected_outside_0_100', 'check:percent_equals_fraction'],
         engine_opts={'div_check': False, 'pin_check': True},
         bounds='all humidity values: rejected iff < 0 or > 100; percent p in (1,100] and fraction p/100 give the same stored humidity and the same density term',
         stubs=['exp summarised'])
def c08_humidity(ctx):
    p = pybc()
    hval = ctx.real('humidity', -1000, 1000)
    try:
        a = p.Atmo(p.Distance.Foot(0), p.Pressure.hPa(1000), p.Temperature.Celsius(20), hval)
        ok = True
    except ValueError:
        ok = False
    ctx.check('rejected_outside_0_100', ok == ((hval >= 0) & (hval <= 100)))
    if ok and hval > 1:
        b = p.Atmo(p.Distance.Foot(0), p.Pressure.hPa(1000), p.Temperature.Celsius(20), hval / 100)
        ctx.check_eq('percent_equals_fraction', a.humidity, b.humidity)
        ctx.check_eq('percent_equals_fraction', a.density_ratio, b.density_ratio, info={'field': 'density_ratio'})
    if ok:
        # setter after construction recomputes the density
        a.humidity = 0.0
        dry = p.Atmo(p.Distance.Foot(0), p.Pressure.hPa(1000), p.Temperature.Celsius(20), 0.0)
        ctx.check_eq('setter_updates_density', a.density_ratio, dry.density_ratio)
        # ... also what the station predicts FAR from its own altitude, when it had already been asked there before the humidity changed
        h2 = ctx.real('humidity_later', 0, 100)
        far = 2500.0
        a.get_density_factor_and_mach_for_altitude(far)
        a.humidity = h2
        same = p.Atmo(p.Distance.Foot(0), p.Pressure.hPa(1000), p.Temperature.Celsius(20), h2)
        d1, m1 = a.get_density_factor_and_mach_for_altitude(far)
        d2, m2 = same.get_density_factor_and_mach_for_altitude(far)
        ctx.check('setter_updates_density', ctx.same_term(d1, d2) and ctx.same_term(m1, m2), info={'where': 'far from the station, asked before and after the change'})
        # a refused assignment leaves the station as it was (value, density), for an ordinary atmosphere and for a vacuum
        bad = ctx.real('humidity_refused', -1000, 1000)
        ctx.assume((bad < 0) | (bad > 100))
        for tag, obj in (('atmo', a), ('vacuum', p.Vacuum(p.Distance.Foot(0), p.Temperature.Celsius(20)))):
            hb, db = obj.humidity, obj.density_ratio
            try:
                obj.humidity = bad
                refused = False
            except ValueError:
                refused = True
            ctx.check('rejected_outside_0_100', refused, info={'object': tag, 'via': 'setter'})
            ctx.check('refused_assignment_changes_nothing', ctx.same_term(obj.humidity, hb) and ctx.same_term(obj.density_ratio, db), info={'object': tag})


@harness('C08.vacuum', 'C08', functions=FUNCS, must_reach=['check:vacuum_density_zero'], engine_opts={'div_check': False, 'pin_check': True},
         bounds='Vacuum at any altitude / temperature, queried at any altitude (inside and outside the 30 ft shortcut): density ratio exactly 0, pressure 0',
         stubs=['sqrt/pow summarised'])
def c08_vacuum(ctx):
    p = pybc()
    a0 = _alt(ctx, 'station_ft')
    t = ctx.real('celsius', -60, 60)
    a = _alt(ctx, 'query_ft')
    ctx.assume(t + F(27315, 100) + (a - a0) * (LAPSE * FOOT) > 184)
    v = p.Vacuum(p.Distance.Foot(a0), p.Temperature.Celsius(t))
    ctx.check_eq('vacuum_density_zero', v.density_ratio, 0)
    ctx.check_eq('vacuum_pressure_zero', v.pressure.raw_value, 0)
    try:
        d, m = v.get_density_factor_and_mach_for_altitude(a)
        ctx.check_eq('vacuum_density_zero', d, 0, info={'at': 'query'})
        ctx.check('vacuum_mach_positive', m > 0)
    except ZeroDivisionError:
        ctx.check('vacuum_density_zero', False, info={'raised': 'ZeroDivisionError'})
    # ... and it stays a vacuum whatever public operation the object has been through ("exactly zero everywhere")
    h = ctx.real('humidity_assigned', 0, 100)
    v.humidity = h
    ctx.check_eq('vacuum_density_zero', v.density_ratio, 0, info={'after': 'humidity assigned'})
    v.update_density_ratio()
    ctx.check_eq('vacuum_density_zero', v.density_ratio, 0, info={'after': 'update_density_ratio()'})
    ctx.check_eq('vacuum_density_zero', v.density_metric, 0, info={'after': 'update_density_ratio()', 'field': 'density_metric'})
    ctx.check_eq('vacuum_density_zero', v.density_imperial, 0, info={'after': 'update_density_ratio()', 'field': 'density_imperial'})
    try:
        d, m = v.get_density_factor_and_mach_for_altitude(a)
        ctx.check_eq('vacuum_density_zero', d, 0, info={'at': 'query', 'after': 'humidity assigned'})
    except ZeroDivisionError:
        ctx.check('vacuum_density_zero', False, info={'raised': 'ZeroDivisionError', 'after': 'humidity assigned'})


def _cfg_mono(tier):
    return [{'var': v} for v in ('pressure', 'humidity', 'temperature')]


@harness('C08.monotone', 'C08', configs=_cfg_mono, functions=FUNCS, engine_opts={'div_check': False, 'pin_check': True, 'oblig_timeout_ms': 20000},
         must_reach=['check:monotone'],
         bounds='calculate_air_density on t in [-60,60] C, p in [500,1100] hPa, humidity fraction in [0,1]: two inputs that differ in one variable are '
                'ordered the stated way (pressure up => density up; humidity up => density down; temperature up => density down for dry air)',
         stubs=['exp summarised; the saturation pressure term enclosed in [0, 20000] Pa on the box (its value at 60 C is 19 947 Pa)'],
         outside=['temperature and pressure monotonicity for moist air (dry air is decided; the moist terms need the derivative of the saturation pressure / a 6-variable rational inequality that z3 does not finish)'])
def c08_monotone(ctx, var):
    p = pybc()
    t = ctx.real('celsius', -60, 60)
    pr = ctx.real('hPa', 500, 1100)
    hu = ctx.real('humidity', 0, 1)
    d = ctx.real('delta', 1e-6, 1000)
    import py_ballisticcalc.conditions as cond
    sat = []
    real_exp = cond.math.exp

    class _Rec:
        def __getattr__(self, k):
            return getattr(M, k)

        def exp(self, x):
            r = real_exp(x)
            sat.append(r)
            return r
    old = cond.math
    cond.math = _Rec()
    try:
        if var == 'pressure':
            ctx.assume(pr + d <= 1100)
            r1 = p.Atmo.calculate_air_density(t, pr, 0.0)
            r2 = p.Atmo.calculate_air_density(t, pr + d, 0.0)
            ctx.check('monotone', r2 > r1, info={'var': var})
        elif var == 'humidity':
            ctx.assume(hu + d <= 1)
            r1 = p.Atmo.calculate_air_density(t, pr, hu)
            r2 = p.Atmo.calculate_air_density(t, pr, hu + d)
            for e in sat:
                ctx.assume((e >= 0) & (e <= 20000))
            ctx.check('monotone', r2 <= r1, info={'var': var})
            ctx.check('monotone_strict_when_saturation_positive', ctx.implies(ctx.all([e > 1e-3 for e in sat]), r2 < r1))
        else:
            ctx.assume(t + d <= 60)
            r1 = p.Atmo.calculate_air_density(t, pr, 0.0)
            r2 = p.Atmo.calculate_air_density(t + d, pr, 0.0)
            ctx.check('monotone', r2 < r1, info={'var': var})
    finally:
        cond.math = old


def _cfg_inputs(tier):
    out = []
    for var in ('temperature', 'pressure'):
        units = {'temperature': ['Fahrenheit', 'Celsius', 'Kelvin', 'Rankin'], 'pressure': ['InHg', 'hPa', 'MmHg', 'PSI']}[var]
        for u in (units[:2] if tier == 'quick' else units):
            for bare in (True, False):
                out.append({'var': var, 'unit': u, 'bare': bare})
    return out


@harness('C08.station_inputs', 'C08', configs=_cfg_inputs, functions=FUNCS, engine_opts={'div_check': False, 'pin_check': True, 'oblig_timeout_ms': 20000},
         must_reach=['check:station_reports_what_it_was_given', 'check:monotone_through_the_constructor'],
         bounds='two dry stations built through the public constructor that differ in ONE input (temperature or pressure), the input given as a quantity or as a BARE '
                'number under the preferred unit (quick: F, C / inHg, hPa), over the whole range including 0 and negative numbers: each station reports the input it was '
                'given, and the density ratios are ordered the stated way',
         stubs=['sqrt/exp/pow summarised'])
def c08_station_inputs(ctx, var, unit, bare):
    from harness.common import with_preferred, c_of
    p = pybc()
    U = getattr(p.Unit, unit)
    x = ctx.real('value')
    d = ctx.real('delta', 1e-6, 1000)
    if var == 'temperature':
        c1, c2 = c_of(ctx, x, unit), c_of(ctx, x + d, unit)
        ctx.assume((c1 >= -60) & (c2 <= 60))
    else:
        hpa1 = x * (si.PRESSURE_PA[unit] / 100)
        hpa2 = (x + d) * (si.PRESSURE_PA[unit] / 100)
        ctx.assume((hpa1 >= 500) & (hpa2 <= 1100))

    def mk(val):
        with with_preferred(**{var: U}):
            arg = val if bare else U(val)
            if var == 'temperature':
                return p.Atmo(p.Distance.Foot(0), p.Pressure.hPa(1000), arg, 0.0)
            return p.Atmo(p.Distance.Foot(0), arg, p.Temperature.Celsius(15), 0.0)
    a1, a2 = mk(x), mk(x + d)
    for a, val in ((a1, x), (a2, x + d)):
        got = (a.temperature if var == 'temperature' else a.pressure) >> U
        ctx.check_eq('station_reports_what_it_was_given', got, val, rel=1e-9, abs=1e-9, info={'var': var, 'unit': unit, 'bare': bare})
    if var == 'temperature':
        ctx.check('monotone_through_the_constructor', a2.density_ratio < a1.density_ratio, info={'var': var})
        ctx.check('monotone_through_the_constructor', a2.mach.raw_value > a1.mach.raw_value, info={'var': var, 'field': 'speed of sound'})
    else:
        ctx.check('monotone_through_the_constructor', a2.density_ratio > a1.density_ratio, info={'var': var})


def _cfg_bare_alt(tier):
    from harness.common import DIST_UNITS
    return [{'unit': u} for u in (['Yard', 'Meter', 'Foot'] if tier == 'quick' else DIST_UNITS[:9])]


@harness('C08.bare_altitude', 'C08', configs=_cfg_bare_alt, functions=FUNCS, engine_opts={'div_check': False, 'pin_check': True},
         must_reach=['check:standard_station_from_a_bare_altitude'],
         bounds='Atmo.icao / Atmo.standard given a BARE number as altitude under each preferred distance unit (quick: yd, m, ft): the station altitude, the ISA temperature and the '
                'barometric base are those of that number of preferred units (all altitudes in the troposphere)',
         stubs=['pow/sqrt/exp summarised'])
def c08_bare_altitude(ctx, unit):
    from harness.common import with_preferred
    p = pybc()
    U = getattr(p.Unit, unit)
    n = ctx.real('altitude_number')
    h_ft = n * (si.LENGTH_M[unit] / si.FOOT)
    ctx.assume((h_ft >= -1400) & (h_ft <= 36000))
    import py_ballisticcalc.conditions as cond
    seen = []
    real_pow = cond.math.pow

    class _Rec:
        def __getattr__(self, k):
            return getattr(M, k)

        def pow(self, b, e):
            seen.append((b, e))
            return real_pow(b, e)
    old = cond.math
    cond.math = _Rec()
    try:
        with with_preferred(distance=U):
            a = p.Atmo.icao(n)
    finally:
        cond.math = old
    ctx.check_eq('standard_station_from_a_bare_altitude', a.altitude >> p.Distance.Foot, h_ft, rel=1e-6, info={'field': 'altitude'})
    ctx.check_eq('standard_station_from_a_bare_altitude', a.temperature >> p.Temperature.Kelvin, T0 + LAPSE * (h_ft * FOOT), rel=1e-5, info={'field': 'temperature'})
    ctx.check('one_pow', len(seen) >= 1)
    ctx.check_eq('standard_station_from_a_bare_altitude', seen[0][0], 1 + LAPSE * (h_ft * FOOT) / T0, rel=1e-6, info={'field': 'barometric base'})
