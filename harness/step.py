"""One real iteration of TrajectoryCalc._integrate from an arbitrary state (pattern I) - shared by C01, C04, C12, C18.

The real method is entered with filter_flags = NONE.  Its state after initialisation is made arbitrary through symbolic parameters:
launch speed and the (summarised) sines / cosines of symbolic elevation and azimuth (every vector of R^3 arises), start position
through symbolic sight height and cant terms, symbolic wind vector, symbolic atmosphere answers (density ratio >= 0, speed of sound
> 0) and a symbolic drag answer K >= 0.  The atmosphere stub cuts the path at its second call (unwind bound: one iteration).
"""
from symx.core import PathAbort
from symx.stubs import symmath as M
from harness.common import pybc


def tcmod():
    import py_ballisticcalc.trajectory_calc._trajectory_calc as tc
    return tc


class NegInf:
    """a limit that is never violated (limits disabled)"""

    def __gt__(self, o):      # -inf > x
        return False

    def __ge__(self, o):
        return False

    def __lt__(self, o):      # -inf < x
        return True

    def __le__(self, o):
        return True


class StepWorld:
    """symbolic environment for one (or a few) iterations"""

    def __init__(self, ctx, limits='symbolic', max_atmo_calls=1, vacuum=False, mirror=False, tag=''):
        p = pybc()
        tc = tcmod()
        from py_ballisticcalc.vector import Vector
        self.ctx, self.p, self.tc = ctx, p, tc
        r = lambda n, lo=None, hi=None: ctx.real(n + tag, lo, hi)
        self.S = r('max_step_ft', 1e-3, 1e3)
        self.G = r('gravity', -100, -1e-3)
        if limits == 'symbolic':
            self.vmin, self.drop, self.altmin = r('min_velocity', -10, 1e4), r('max_drop', -1e6, 1e3), r('min_altitude', -1e6, 1e5)
        else:
            self.vmin, self.drop, self.altmin = NegInf(), NegInf(), NegInf()
        cfg = tc.Config(max_calc_step_size_feet=self.S, chart_resolution=0.2, cZeroFindingAccuracy=5e-6, cMinimumVelocity=self.vmin,
                        cMaximumDrop=self.drop, cMaxIterations=20, cGravityConstant=self.G, cMinimumAltitude=self.altmin)
        self.calc = calc = tc.TrajectoryCalc(cfg)
        self.v0 = r('muzzle_velocity', 0, 1e4)
        self.elev, self.azim = r('elevation', -1.6, 1.6), r('azimuth', -1.6, 1.6)
        self.sh, self.cc, self.cs = r('sight_height_ft', -10, 10), r('cant_cos', -1, 1), r('cant_sin', -1, 1)
        self.alt0 = r('alt0', -1e4, 1e5)
        sgn = -1 if mirror else 1
        self.wx, self.wz = r('wind_x', -300, 300), r('wind_z', -300, 300)
        self.look = r('look_angle', -1.5, 1.5)          # the sight line's inclination: no part of the equations of motion, nor of the limits
        calc.look_angle = self.look
        calc.twist = calc.length = calc.diameter = 0
        calc.weight = 100.0
        calc.barrel_elevation, calc.barrel_azimuth = self.elev, (-self.azim if mirror else self.azim)
        calc.sight_height, calc.cant_cosine, calc.cant_sine = self.sh, self.cc, (-self.cs if mirror else self.cs)
        calc.alt0 = self.alt0
        calc.calc_step = calc.get_calc_step()
        calc.muzzle_velocity = self.v0
        calc.stability_coefficient = 0
        self.atmo_calls, self.drag_calls = [], []
        world = self

        class Atmo:
            def get_density_factor_and_mach_for_altitude(self_, alt):
                if len(world.atmo_calls) >= max_atmo_calls:
                    ctx.cut('unwind')
                k = len(world.atmo_calls)
                rho = 0.0 if vacuum else r(f'density_ratio{k}', 0, 10)
                a = r(f'speed_of_sound{k}', 100, 5000)
                world.atmo_calls.append((alt, rho, a))
                return rho, a

        def drag_by_mach(mach):
            k = len(world.drag_calls)
            K = r(f'drag_K{k}', 0, 1)
            world.drag_calls.append((mach, K))
            return K
        calc.drag_by_mach = drag_by_mach
        wvec = Vector(self.wx, 0.0, sgn * self.wz)

        class W:
            vector = wvec
            until_distance = p.Distance.Foot(1e8)

        class Shot:
            winds = (W(),)
            atmo = Atmo()
        self.shot = Shot()

    def run(self, R, rec=None):
        """returns ('ok', rows) or ('range_error', exc); self.row_args = arguments of every create_trajectory_row call (pass-through spy)"""
        tc = self.tc
        self.row_args = []
        orig = tc.create_trajectory_row

        def spy(*a):
            self.row_args.append(a)
            return orig(*a)
        tc.create_trajectory_row = spy
        try:
            rows = self.calc._integrate(self.shot, R, R if rec is None else rec, 0, 0.0)
            return 'ok', rows
        except self.p.RangeError as e:
            return 'range_error', e
        finally:
            tc.create_trajectory_row = orig

    # ---- the oracle: one step of the stated equations of motion, written from the property text
    def oracle(self):
        v0, S, G = self.v0, self.S, self.G
        ce, se = M.cos(self.elev), M.sin(self.elev)
        ca, sa = M.cos(self.azim), M.sin(self.azim)
        vx, vy, vz = v0 * (ce * ca), v0 * se, v0 * (ce * sa)
        x, y, z = 0.0, -self.cc * self.sh, -self.cs * self.sh
        ax, ay, az = vx - self.wx, vy - 0.0, vz - self.wz
        r = M.sqrt(ax * ax + ay * ay + az * az)
        return dict(vx=vx, vy=vy, vz=vz, x=x, y=y, z=z, ax=ax, ay=ay, az=az, r=r)
