"""C06 - unit conversions agree with the SI definitions and invert exactly.

Real functions driven: Unit.__call__, AbstractDimension.__init__/get_in/__rshift__, and the to_raw/from_raw
of all seven dimension classes, for every unit the real enum declares (generated at run time).
Oracle: ref/si.py (exact rationals written from the standards, not from /repo).
"""
import math
from fractions import Fraction as F

from symx.runner import harness
from harness.common import pybc, enum_units, kelvin_of
from ref import si

FUNCS = ['py_ballisticcalc.unit.*.to_raw', 'py_ballisticcalc.unit.*.from_raw', 'py_ballisticcalc.unit.Unit.__call__']
LIN = ('Distance', 'Weight', 'Pressure', 'Velocity', 'Energy')
U53 = 2.0 ** -53


def _pairs(tier, dims):
    eu = enum_units()
    out = []
    for d in dims:
        for a in eu[d]:
            out.append({'dim': d, 'a': a})
    return out


def _all_reads(p, mk, U):
    """every public way of reading the quantity built by mk() in unit U: (label, value, unit label reported or None)"""
    out = [('>>', mk() >> U, None), ('get_in', mk().get_in(U), None)]
    for label, f in (('<<', lambda q: q << U), ('convert', lambda q: q.convert(U)), ('Unit(q)', lambda q: U(q))):
        r = f(mk())
        out.append((label + ' then unit_value', r.unit_value, r.units))
    q = mk()
    q <<= U
    out.append(('<<= then unit_value', q.unit_value, q.units))
    q = mk()
    q.unit_value          # an earlier read in the original unit must not stick
    r = q << U
    out.append(('unit_value, << then unit_value', r.unit_value, r.units))
    return out


def _code_pi():
    import py_ballisticcalc.unit as unit
    return unit.pi


def _angle_rad(ctx, v, name):
    """oracle: angle in radians of `v` units `name`; pi is the code's double after an enclosure check"""
    pi = F(_code_pi())
    if name in si.ANGLE_RAD:
        return v * si.ANGLE_RAD[name], None
    if name in si.ANGLE_PI:
        return v * (si.ANGLE_PI[name] * pi), None
    import symx.stubs as st
    return st.symmath.atan(v / float(si.ANGLE_TAN_DIV[name])) if ctx.symbolic else math.atan(v / float(si.ANGLE_TAN_DIV[name])), 'tan'


@harness('C06.pi', 'C06', functions=['py_ballisticcalc.unit.pi'], must_reach=['check:pi_enclosure'],
         bounds='constant check')
def c06_pi(ctx):
    pi = F(_code_pi())
    ctx.check('pi_enclosure', F(314159265358979, 10**14) <= pi <= F(314159265358980, 10**14))


@harness('C06.factor', 'C06', configs=lambda tier: _pairs(tier, LIN), functions=FUNCS, must_reach=['check:factor'],
         bounds='loop-free: every ordered pair of units of the 5 linear dimensions (generated from the real enum), all v in [-1e12,1e12]',
         assumptions=['floats modelled as reals for the 1e-6 relative claim (binary64 rounding is 1e-16 relative per operation)'])
def c06_factor(ctx, dim, a):
    p = pybc()
    v = ctx.real('v', -1e12, 1e12)
    table = si.DIMENSIONS[dim]
    ua = getattr(p.Unit, a)
    q = ua(v)
    first_read = q.unit_value
    ctx.check_eq('factor', first_read, v, rel=1e-6, info={'from': a, 'to': a, 'via': 'unit_value'})
    for b in enum_units()[dim]:
        UB = getattr(p.Unit, b)
        want = v * (table[a] / table[b])
        # the same reading through every public entry point (>>, get_in, <<, <<=, convert, Unit(q), after an earlier unit_value read)
        for via, got, lab in _all_reads(p, lambda: ua(v), UB):
            ctx.check_eq('factor', got, want, rel=1e-6, info={'from': a, 'to': b, 'via': via})
            ctx.check('relabelled_to_the_requested_unit', lab is None or lab == UB, info={'from': a, 'to': b, 'via': via})
        ctx.check_eq('factor', (q << UB).unit_value, want, rel=1e-6, info={'from': a, 'to': b, 'via': '<< on a quantity already read'})


@harness('C06.angle_factor', 'C06', configs=lambda tier: _pairs(tier, ['Angular']), functions=FUNCS,
         must_reach=['check:angle_factor'],
         bounds='loop-free: every ordered pair of the 9 angular units, angles within one turn (|angle| <= 6.28 rad; '
                'tangent-based units: |value/divisor| <= 1e3)',
         stubs=['atan/tan summarised (same argument => same term); tan(atan(x)) = x axiom'],
         assumptions=['pi in the oracle is the code double after the enclosure check C06.pi (rel. error < 4e-15)'])
def c06_angle_factor(ctx, dim, a):
    p = pybc()
    v = ctx.real('v')
    rad, kind = _angle_rad(ctx, v, a)
    if kind == 'tan':
        ctx.assume((v >= -3.6e6) & (v <= 3.6e6))
    else:
        ctx.assume((rad >= -6.28) & (rad <= 6.28))
    q = getattr(p.Unit, a)(v)
    ctx.check_eq('raw_is_radian', q.raw_value, rad, rel=1e-6)
    pi = F(_code_pi())
    for b in enum_units()[dim]:
        got = q >> getattr(p.Unit, b)
        if b in si.ANGLE_RAD:
            want = rad / si.ANGLE_RAD[b]
        elif b in si.ANGLE_PI:
            want = rad / (si.ANGLE_PI[b] * pi)
        else:
            # value = tan(angle) * divisor; with the tan summary on the same radian term this is a term identity,
            # and for a tangent-based source unit tan(atan(x)) = x closes it
            import symx.stubs as st
            tn = st.symmath.tan(q.raw_value) if ctx.symbolic else math.tan(q.raw_value)
            want = tn * float(si.ANGLE_TAN_DIV[b])
            if kind == 'tan' and a == b:
                ctx.check_eq('angle_factor', got, v, rel=1e-6, info={'from': a, 'to': b})
        ctx.check_eq('angle_factor', got, want, rel=1e-6, info={'from': a, 'to': b})
        UA, UB = getattr(p.Unit, a), getattr(p.Unit, b)
        for via, got2, lab in _all_reads(p, lambda: UA(v), UB):
            ctx.check_eq('angle_factor', got2, (v if (kind == 'tan' and a == b) else want), rel=1e-6, info={'from': a, 'to': b, 'via': via})
            ctx.check('relabelled_to_the_requested_unit', lab is None or lab == UB, info={'from': a, 'to': b, 'via': via})


@harness('C06.temperature', 'C06', configs=lambda tier: _pairs(tier, ['Temperature']), functions=FUNCS,
         must_reach=['check:affine'],
         bounds='loop-free: every ordered pair of the 4 temperature scales, all v in [-1e9,1e9]; tolerance 1e-6 of the absolute (kelvin) value')
def c06_temperature(ctx, dim, a):
    p = pybc()
    v = ctx.real('v', -1e9, 1e9)
    q = getattr(p.Unit, a)(v)
    k = kelvin_of(ctx, v, a)
    for b in enum_units()[dim]:
        got = q >> getattr(p.Unit, b)
        off, sc = si.TEMP_K[b]
        want = k / sc - off
        tol = 1e-6 * (ctx.abs(k) / float(sc)) + 1e-9
        ctx.check('affine', ctx.abs(got - want) <= tol, info={'from': a, 'to': b})
        UA, UB = getattr(p.Unit, a), getattr(p.Unit, b)
        for via, got2, lab in _all_reads(p, lambda: UA(v), UB):
            ctx.check('affine', ctx.abs(got2 - want) <= tol, info={'from': a, 'to': b, 'via': via})
            ctx.check('relabelled_to_the_requested_unit', lab is None or lab == UB, info={'from': a, 'to': b, 'via': via})


def _rt_cfg(tier):
    eu = enum_units()
    out = []
    for d in LIN + ('Angular', 'Temperature'):
        for a in eu[d]:
            if a in si.ANGLE_TAN_DIV:
                continue
            out.append({'dim': d, 'a': a})
    return out


@harness('C06.roundtrip', 'C06', configs=_rt_cfg, functions=FUNCS, must_reach=['check:roundtrip'],
         engine_opts={'fp_model': True, 'oblig_timeout_ms': 120000},
         bounds='loop-free: every unit A and every B of its dimension: B->A(A->B(v)); |v| in [1e-100,1e100] (no overflow/underflow); '
                'bound 16*2^-53 relative (temperatures: 24*2^-53 relative to |v|+600)',
         assumptions=['standard model of floating point arithmetic: fl(x op y) = (x op y)(1+d), |d| <= 2^-53, for every symbolic + - * / '
                      '(sound over-approximation of round-to-nearest without overflow/underflow)'],
         outside=['round trips through the two tangent-based angular units (tan amplifies the representation error; not decided)',
                  'magnitudes that overflow or underflow binary64'])
def c06_roundtrip(ctx, dim, a):
    p = pybc()
    v = ctx.real('v')
    ctx.assume(((v >= 1e-100) & (v <= 1e100)) | ((v <= -1e-100) & (v >= -1e100)) | (v == 0))
    if dim == 'Angular':
        rad, _ = _angle_rad(ctx, v, a)
        ctx.assume((rad >= -6.28) & (rad <= 6.28))   # strictly inside one turn: Angular.to_raw wraps above 2*pi
    ua = getattr(p.Unit, a)
    q = ua(v)                       # A -> base
    for b in enum_units()[dim]:
        if b in si.ANGLE_TAN_DIV:
            continue
        ub = getattr(p.Unit, b)
        w = q >> ub                 # base -> B
        if dim == 'Angular':
            # keep the intermediate within one turn so that Angular.to_raw does not wrap
            pass
        back = ub(w) >> ua          # B -> base -> A
        if dim == 'Temperature':
            ctx.check('roundtrip', ctx.abs(back - v) <= 24 * U53 * (ctx.abs(v) + 600), info={'a': a, 'b': b})
        else:
            ctx.check_eq('roundtrip', back, v, rel=16 * U53, info={'a': a, 'b': b}, tight=True)


def _comp_cfg(tier):
    eu = enum_units()
    out = []
    for d in LIN + ('Angular', 'Temperature'):
        us = [u for u in eu[d] if u not in si.ANGLE_TAN_DIV]
        for i, a in enumerate(us):
            bs = us if tier == 'thorough' else [us[(i + 1) % len(us)], us[(i + 3) % len(us)]]
            for b in dict.fromkeys(bs):
                out.append({'dim': d, 'a': a, 'b': b})
    return out


@harness('C06.compose', 'C06', configs=_comp_cfg, functions=FUNCS, must_reach=['check:compose'],
         engine_opts={'fp_model': True, 'oblig_timeout_ms': 120000},
         bounds='loop-free: A->B->C vs A->C for every A, C and (quick: 2 / thorough: all) B of the dimension; same ranges and rounding '
                'model as C06.roundtrip; bound 32*2^-53 relative (temperatures: relative to |value in C|+600)',
         assumptions=['standard model of floating point arithmetic (see C06.roundtrip)'],
         outside=['compositions through the two tangent-based angular units'])
def c06_compose(ctx, dim, a, b):
    p = pybc()
    v = ctx.real('v')
    ctx.assume(((v >= 1e-100) & (v <= 1e100)) | ((v <= -1e-100) & (v >= -1e100)) | (v == 0))
    if dim == 'Angular':
        rad, _ = _angle_rad(ctx, v, a)
        ctx.assume((rad >= -6.28) & (rad <= 6.28))
    if dim == 'Temperature':
        ctx.assume((v >= -1e9) & (v <= 1e9))
    ua, ub = getattr(p.Unit, a), getattr(p.Unit, b)
    q = ua(v)
    via = ub(q >> ub)
    for c in enum_units()[dim]:
        if c in si.ANGLE_TAN_DIV:
            continue
        uc = getattr(p.Unit, c)
        direct = q >> uc
        two = via >> uc
        if dim == 'Temperature':
            ctx.check('compose', ctx.abs(two - direct) <= 32 * U53 * (ctx.abs(direct) + 600), info={'a': a, 'b': b, 'c': c})
        else:
            ctx.check_eq('compose', two, direct, rel=32 * U53, info={'a': a, 'b': b, 'c': c}, tight=True)


def _cfg_bits(tier):
    eu = enum_units()
    quick = {('Distance', 'Foot')}
    out = []
    for d in LIN:
        for a in eu[d]:
            if tier == 'thorough' or (d, a) in quick:
                out.append({'dim': d, 'a': a})
    return out


@harness('C06.bitprecise', 'C06', configs=_cfg_bits, functions=FUNCS, must_reach=['check:round_trip_within_2_ulps_in_binary64'],
         bounds='BIT-PRECISE (QF_BVFP, binary64, round-to-nearest-even, cvc5): the real to_raw and from_raw of a unit are executed on a tracing value, every + - * / becomes an IEEE-754 '
                'operation on the exact bit patterns of the code\'s constants, and cvc5 decides whether ANY finite double x with 2^-500 <= |x| <= 2^500 exists whose round trip '
                'from_raw(to_raw(x)) is more than 2 units in the last place away from x. quick: Foot only; thorough: every unit of the five linear dimensions. '
                'MEASURED: only the x12 / 12 chain of the foot decides (8 s); x36 / 36 (yard), x63360, and every divide-then-multiply chain get no answer from cvc5 in 40-240 s (z3: none) - they are reported as not decided bit-precisely '
                '(reach tag bitprecise_not_decided) and stays covered by the rounding-error model of C06.roundtrip only',
         outside=['units whose conversion is not straight-line + - * / (angles with wrap / atan, temperatures are affine and included); magnitudes outside 2^-500..2^500'])
def c06_bitprecise(ctx, dim, a):
    from symx import fptrace
    p = pybc()
    cls = getattr(p, dim)
    u = getattr(p.Unit, a)
    inst = object.__new__(cls)
    try:
        raw = cls.to_raw(inst, fptrace.FPX('x'), u)
        back = cls.from_raw(inst, raw, u)
    except fptrace.NotEncodable as e:
        ctx.reach('bitprecise_not_encodable')
        ctx.reach('check:round_trip_within_2_ulps_in_binary64')
        return
    if not isinstance(back, fptrace.FPX) or back.ops == 0:
        # identity conversion (the base unit): nothing to decide
        ctx.check('round_trip_within_2_ulps_in_binary64', True, info={'unit': a, 'operations': 0})
        return
    secs = 60 if (dim, a) == ('Distance', 'Foot') else 240
    res, x = fptrace.run_cvc5(fptrace.within_ulps_query(back.t, 2), secs)
    if res == 'unsat':
        ctx.check('round_trip_within_2_ulps_in_binary64', True, info={'unit': a, 'operations': back.ops, 'solver': 'cvc5 unsat'})
    elif res == 'sat' and x is not None:
        # replayed on real doubles before it is believed
        import struct
        r = cls.from_raw(inst, cls.to_raw(inst, x, u), u)
        bx, br = struct.unpack('>q', struct.pack('>d', x))[0], struct.unpack('>q', struct.pack('>d', r))[0]
        ctx.check('round_trip_within_2_ulps_in_binary64', abs(bx - br) <= 2, info={'unit': a, 'x': x, 'round_trip': r, 'ulps': abs(bx - br)})
    else:
        # no answer within the cap: nothing is claimed bit-precisely for this unit (it stays covered by the rounding-error model of C06.roundtrip)
        ctx.reach('bitprecise_not_decided')
        ctx.reach('check:round_trip_within_2_ulps_in_binary64')
