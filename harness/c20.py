"""C20 - trajectory look-ups return the first row satisfying the query.

Pattern U on symbolic trajectories: rows with symbolic non-decreasing distance and time (repeats allowed), the real
helpers (through the C implementation of bisect) and HitResult accessors; oracle = sequential scan written here.
"""
import math

from symx.runner import harness
from harness.common import pybc, mkrow, index_of, DIST_UNITS, VEL_UNITS, with_preferred
from ref import si

FUNCS = ['py_ballisticcalc.helpers.*', 'py_ballisticcalc.trajectory_data._trajectory_data.HitResult.index_at_distance',
         'py_ballisticcalc.trajectory_data._trajectory_data.HitResult.get_at_distance']


def _helpers():
    import py_ballisticcalc.helpers as h
    return h


def _rows(ctx, p, n, heights=False):
    t, d, hs = [], [], []
    for i in range(n):
        ti = ctx.real(f't{i}', 0, 1e4)
        di = ctx.real(f'd{i}', 0, 1e6)
        if i:
            ctx.assume(ti >= t[-1])
            ctx.assume(di >= d[-1])
        t.append(ti)
        d.append(di)
    # sight-line distance column: independent of the distance column (inclined sight line), also non-decreasing
    look = []
    for i in range(n):
        li = ctx.real(f'look{i}', 0, 2e6)
        ctx.assume(li >= d[i])
        if i:
            ctx.assume(li >= look[-1])
        look.append(li)
    rows = [mkrow(p, time=t[i], dist_ft=d[i], look_ft=look[i]) for i in range(n)]
    return t, d, rows


def _first(ctx, conds):
    """sequential scan oracle: index of the first true condition, -1 if none (forks like the scan would)"""
    for i, c in enumerate(conds):
        if c:
            return i
    return -1


def _cfg_n(tier, lo=0):
    hi = 5 if tier == 'quick' else 8
    return [{'n': n} for n in range(lo, hi + 1)]


@harness('C20.time_first', 'C20', configs=_cfg_n, functions=FUNCS, must_reach=['check:first_time_at_least', 'found', 'none'], cost=3,
         bounds='N = 0..5 (quick) / 0..8 (thorough) rows, times non-decreasing (repeats allowed), query time >= 0 symbolic',
         assumptions=['`e.time - time >= 0` is equivalent to `e.time >= time` for finite doubles (gradual underflow)'])
def c20_time_first(ctx, n):
    p, h = pybc(), _helpers()
    t, d, rows = _rows(ctx, p, n)
    q = ctx.real('query_time', 0, 2e4)
    hr = p.HitResult(None, rows, True)
    got = h.find_index_for_time_point(hr, q, True)
    want = _first(ctx, [ti >= q for ti in t])
    ctx.reach('found' if want >= 0 else 'none')
    ctx.check('first_time_at_least', got == want, info={'got': got, 'want': want})


@harness('C20.time_nearest', 'C20', configs=_cfg_n, functions=FUNCS, cost=4,
         must_reach=['check:nearest_time', 'tie', 'too_far'],
         bounds='N = 0..5 / 0..8 rows; query time and allowed deviation (>= 0) symbolic; ties go to the earlier row; empty trajectory '
                'must give the sentinel or an arithmetic error')
def c20_time_nearest(ctx, n):
    p, h = pybc(), _helpers()
    t, d, rows = _rows(ctx, p, n)
    q = ctx.real('query_time', 0, 2e4)
    dev = ctx.real('max_deviation', 0, 2e4)
    hr = p.HitResult(None, rows, True)
    try:
        got = h.find_index_for_time_point(hr, q, False, dev)
        err = None
    except ArithmeticError:
        got, err = None, 'arith'
    except LookupError:
        got, err = None, 'lookup'
    # oracle: argmin |t_i - q|, smallest index on ties; -1 if the minimum exceeds the deviation or there is no row
    best = -1
    for i in range(n):
        if best < 0 or ctx.abs(t[i] - q) < ctx.abs(t[best] - q):
            best = i
    if best >= 0 and n > 1 and any(True for i in range(n) if i != best and (ctx.abs(t[i] - q) == ctx.abs(t[best] - q))):
        ctx.reach('tie')
    if best >= 0 and not (ctx.abs(t[best] - q) <= dev):
        best = -1
        ctx.reach('too_far')
    if n == 0:
        ctx.check('nearest_time', got == -1 or err == 'arith', info={'empty': True, 'got': got, 'err': err})
    else:
        ctx.check('nearest_time', err is None and got == best, info={'got': got, 'want': best, 'err': err})


def _cfg_dist(tier):
    out = []
    hi = 5 if tier == 'quick' else 8
    for n in range(0, hi + 1):
        us = DIST_UNITS if tier == 'thorough' else [DIST_UNITS[n % len(DIST_UNITS)], DIST_UNITS[(n + 5) % len(DIST_UNITS)]]
        for u in us:
            out.append({'n': n, 'unit': u})
    return out


@harness('C20.distance', 'C20', configs=_cfg_dist, functions=FUNCS, cost=4,
         must_reach=['check:first_distance_at_least', 'check:accessor_first_distance', 'check:time_for_distance', 'beyond'],
         bounds='N = 0..5 / 0..8 rows, distances non-decreasing (repeats allowed); query symbolic in each distance unit (quick: 2 per N)')
def c20_distance(ctx, n, unit):
    p, h = pybc(), _helpers()
    U = getattr(p.Unit, unit)
    t, d, rows = _rows(ctx, p, n)
    q = ctx.real('query', 0, 2e6)               # in `unit`
    hr = p.HitResult(None, rows, True)
    # oracle on the values the real unit code reports (unit factors are C06's subject)
    in_u = [r.distance >> U for r in rows]
    want = _first(ctx, [x >= q for x in in_u])
    if want < 0:
        ctx.reach('beyond')
    got = h.find_index_of_point_for_distance(hr, q, U)
    ctx.check('first_distance_at_least', got == want, info={'got': got, 'want': want})
    tm = h.find_time_for_distance_in_shot(hr, q, U)
    if want >= 0:
        ctx.check('time_for_distance', ctx.same_term(tm, t[want]))
    else:
        ctx.check('time_for_distance', isinstance(tm, float) and tm != tm)
    # accessors take a quantity
    dq = U(q)
    want2 = _first(ctx, [r.distance.raw_value >= dq.raw_value for r in rows])
    got2 = hr.index_at_distance(dq)
    ctx.check('accessor_first_distance', got2 == want2, info={'got': got2, 'want': want2})
    try:
        row = hr.get_at_distance(dq)
        ctx.check('accessor_row', want2 >= 0 and row is rows[want2])
    except ArithmeticError:
        ctx.check('accessor_row', want2 < 0)
    # the same result object asked again after the PREFERRED distance unit changed (and with the request displayed in yet another unit):
    # the answer is about magnitudes, not about the unit in force at the first look-up
    U2 = getattr(p.Unit, DIST_UNITS[(DIST_UNITS.index(unit) + 3) % len(DIST_UNITS)])
    U3 = getattr(p.Unit, DIST_UNITS[(DIST_UNITS.index(unit) + 6) % len(DIST_UNITS)])
    with with_preferred(distance=U2):
        got3 = hr.index_at_distance(U(q) << U3)
        ctx.check('accessor_first_distance', got3 == want2, info={'got': got3, 'want': want2, 'after': 'preferred unit changed'})
        try:
            row = hr.get_at_distance(U(q))
            ctx.check('accessor_row', want2 >= 0 and row is rows[want2], info={'after': 'preferred unit changed'})
        except ArithmeticError:
            ctx.check('accessor_row', want2 < 0, info={'after': 'preferred unit changed'})
    got4 = hr.index_at_distance(dq)
    ctx.check('accessor_first_distance', got4 == want2, info={'got': got4, 'want': want2, 'after': 'preferred unit changed back'})
    # every other result accessor that looks a row up by distance: the danger-space query centres on the same row
    try:
        ds = hr.danger_space(dq, p.Distance.Foot(0.0), p.Angular.Radian(0.0))
        ctx.check('accessor_row', want2 >= 0 and ds.at_range is rows[want2], info={'via': 'danger_space'})
    except ArithmeticError:
        ctx.check('accessor_row', want2 < 0, info={'via': 'danger_space'})


@harness('C20.generic', 'C20', configs=lambda tier: _cfg_n(tier), functions=FUNCS, cost=3,
         must_reach=['check:first_matching', 'check:first_monotonic', 'check:velocity_below'],
         bounds='N = 0..5 / 0..8 rows; predicate "time >= q" through the sequential and the bisecting generic helpers; '
                'velocity threshold in every velocity unit with arbitrary (non-monotone) velocities')
def c20_generic(ctx, n):
    p, h = pybc(), _helpers()
    t, d, rows0 = _rows(ctx, p, n)
    v = [ctx.real(f'v{i}', 0, 1e4) for i in range(n)]
    rows = [mkrow(p, time=t[i], dist_ft=d[i], vel_fps=v[i]) for i in range(n)]
    hr = p.HitResult(None, rows, True)
    q = ctx.real('query_time', 0, 2e4)
    want = _first(ctx, [ti >= q for ti in t])
    ctx.check('first_matching', h.find_first_index_matching_condition(hr, lambda e: e.time >= q) == want)
    ctx.check('first_monotonic', h.find_first_index_satisfying_monotonic_condition(rows, lambda e: e.time >= q) == want)
    thr = ctx.real('velocity_threshold', 0, 2e4)
    for vu in VEL_UNITS:
        VU = getattr(p.Unit, vu)
        wantv = _first(ctx, [(r.velocity >> VU) < thr for r in rows])
        ctx.check('velocity_below', h.find_velocity_less_than_index(hr, thr, VU) == wantv, info={'unit': vu})


@harness('C20.nearest_generic', 'C20', configs=lambda tier: _cfg_n(tier, 1), functions=FUNCS, cost=3,
         must_reach=['check:nearest_generic'],
         bounds='N = 1..5 / 1..8 rows; nearest by time through find_nearest_index_satisfying_monotonic_condition: argmin, earlier row on ties')
def c20_nearest_generic(ctx, n):
    p, h = pybc(), _helpers()
    t, d, rows = _rows(ctx, p, n)
    q = ctx.real('query_time', 0, 2e4)
    got = h.find_nearest_index_satisfying_monotonic_condition(rows, q, lambda e: e.time)
    best = 0
    for i in range(1, n):
        if ctx.abs(t[i] - q) < ctx.abs(t[best] - q):
            best = i
    ctx.check('nearest_generic', got == best, info={'got': got, 'want': best})


@harness('C20.apex', 'C20', configs=lambda tier: _cfg_n(tier), functions=FUNCS, cost=2,
         must_reach=['check:apex_is_highest'],
         bounds='N = 0..5 / 0..8 rows with symbolic heights, strictly increasing up to one peak and strictly decreasing after it (as documented)')
def c20_apex(ctx, n):
    p, h = pybc(), _helpers()
    hs = [ctx.real(f'h{i}', -1e5, 1e5) for i in range(n)]
    flagged = ctx.choice('zero_down_row', n + 1) if n else 0        # which row (if any) is flagged ZERO_DOWN
    rows = [mkrow(p, time=float(i), dist_ft=float(i), height_ft=hs[i], flag=(8 | 2 if i == flagged - 1 else 8)) for i in range(n)]
    if n:
        k = ctx.choice('peak', n)
        for i in range(n - 1):
            ctx.assume(hs[i] < hs[i + 1] if i < k else hs[i] > hs[i + 1])
    got = h.find_index_of_apex_in_points(rows)
    got2 = h.find_index_of_apex_point(p.HitResult(None, rows, True))
    if n == 0:
        ctx.check('apex_is_highest', got == -1 and got2 == -1)
    else:
        ctx.check('apex_is_highest', got == k and got2 == k, info={'got': got, 'peak': k})
