"""Concrete carriers for the P pattern (concrete physics in true doubles, symbolic request parameters).

A carrier is a fixed shot + calculator with a COARSE maximum integration step, so that a trajectory is K integration steps long and
the branches that compare the concrete state with a symbolic parameter (range, record step, time step, wind until-distance, limits)
partition the parameter space into a manageable number of cells.
"""
import contextlib

from harness.common import pybc

CARRIERS = {
    # the test-suite's .308 load, zeroed at 100 yd: flat fire, zero-up and zero-down inside the horizon
    'A': dict(table='TableG7', bc=0.223, mv_fps=2750.0, sight_in=2.0, zero_yd=100.0, weight=168.0, diameter=0.308, length=1.282, twist=12.0),
    # Mach crossing inside the horizon
    'B': dict(table='TableG1', bc=0.3, mv_fps=1250.0, sight_in=1.5, zero_yd=50.0, weight=150.0, diameter=0.308, length=1.1, twist=-10.0),
    # inclined fire (23 mm like): relative angle / look angle given by the harness
    'C': dict(table='TableG1', bc=0.759, mv_fps=3051.0, sight_in=0.0, zero_yd=None, weight=1667.0, diameter=0.9, length=4.26, twist=0.0),
    # a bullet WITHOUT dimensions (no length / diameter) in a rifled barrel: no spin drift may appear
    'E': dict(table='TableG7', bc=0.223, mv_fps=2750.0, sight_in=2.0, zero_yd=100.0, weight=168.0, diameter=0.0, length=0.0, twist=12.0),
    # slow projectile launched just below a nearest-node boundary of the drag table (Mach 0.2737 at 8000 ft; boundary 0.275): accelerating downhill it crosses it upwards
    'F': dict(table='TableG7', bc=0.1, mv_fps=297.0, sight_in=1.0, zero_yd=None, weight=100.0, diameter=0.3, length=1.0, twist=10.0),
    # slow projectile: minimum velocity / altitude limits
    'D': dict(table='TableG7', bc=0.1, mv_fps=300.0, sight_in=1.0, zero_yd=None, weight=100.0, diameter=0.3, length=1.0, twist=10.0),
    # rated just supersonic (Mach 1.012 at 59 F), but LAUNCHED subsonic: powder sensitivity on, cold powder (the solver must work with the launch velocity)
    'H': dict(table='TableG1', bc=0.3, mv_fps=1130.0, sight_in=1.5, zero_yd=None, weight=150.0, diameter=0.308, length=1.1, twist=10.0,
              powder=dict(temp_c=15.0, modifier=0.02, atmo_powder_c=-25.0)),
    # a measured (custom) drag table that does NOT start at Mach 0, and a projectile flying below the midpoint of its first two entries
    'G': dict(table=[{'Mach': 0.4, 'CD': 0.21}, {'Mach': 0.7, 'CD': 0.27}, {'Mach': 0.9, 'CD': 0.40}, {'Mach': 1.1, 'CD': 0.52}, {'Mach': 2.0, 'CD': 0.36}],
              bc=0.2, mv_fps=520.0, sight_in=1.5, zero_yd=None, weight=120.0, diameter=0.3, length=1.0, twist=10.0),
}

WINDS = {
    'none': [],
    'head': [(10.0, 180.0, None)],
    'tail': [(10.0, 0.0, None)],
    'left': [(10.0, 90.0, None)],
    'tail30': [(30.0, 0.0, None)],
    'head30': [(30.0, 180.0, None)],       # strong tail wind: the ground advance per step exceeds the air-relative step
    'two': [(8.0, 90.0, 200.0), (12.0, 270.0, 500.0)],     # (mph, from degrees, until feet)
    'two_unsorted': [(12.0, 270.0, 500.0), (8.0, 90.0, 200.0)],
    'head_then_tail': [(20.0, 180.0, 300.0), (20.0, 0.0, None)],     # segment boundary short of typical zero distances
    'tail_then_head': [(25.0, 20.0, 150.0), (25.0, 200.0, 450.0)],
}

_CACHE = {}


def make(name, step_ft, wind='none', look_deg=0.0, relative_deg=0.0, cant_deg=0.0, altitude_ft=0.0, vacuum=False, config=None,
         sight_in=None, fresh=False):
    """(calculator, shot) for a carrier; the zeroing (a concrete computation) is cached per process"""
    p = pybc()
    U = p.Unit
    c = CARRIERS[name]
    key = (name, step_ft, look_deg, cant_deg, altitude_ft, vacuum, sight_in, repr(sorted((config or {}).items())))
    cfg = {'max_calc_step_size_feet': float(step_ft)}
    cfg.update(config or {})
    calc = p.Calculator(_config=cfg)
    dm = p.DragModel(c['bc'], getattr(p, c['table']) if isinstance(c['table'], str) else [dict(r) for r in c['table']], U.Grain(c['weight']), U.Inch(c['diameter']), U.Inch(c['length']))
    pw = c.get('powder')
    ammo = p.Ammo(dm, U.FPS(c['mv_fps'])) if pw is None else p.Ammo(dm, U.FPS(c['mv_fps']), U.Celsius(pw['temp_c']), pw['modifier'], True)
    weapon = p.Weapon(U.Inch(c['sight_in'] if sight_in is None else sight_in), U.Inch(c['twist']))
    atmo = p.Vacuum(U.Foot(altitude_ft)) if vacuum else p.Atmo.icao(U.Foot(altitude_ft))
    if pw is not None and not vacuum:
        atmo = p.Atmo(atmo.altitude, atmo.pressure, atmo.temperature, atmo.humidity, U.Celsius(pw['atmo_powder_c']))
    winds = [p.Wind(U.MPH(v), U.Degree(d), None if u is None else U.Foot(u)) for (v, d, u) in WINDS[wind]] if isinstance(wind, str) else wind
    shot = p.Shot(weapon, ammo, U.Degree(look_deg), U.Degree(relative_deg), U.Degree(cant_deg), atmo, winds)
    if c['zero_yd'] is not None:
        if key not in _CACHE or fresh:
            zshot = p.Shot(p.Weapon(weapon.sight_height, weapon.twist), ammo, U.Degree(look_deg), U.Degree(0.0), U.Degree(cant_deg), atmo, [])
            zcalc = p.Calculator(_config={'max_calc_step_size_feet': float(step_ft)})   # zeroed with the carrier's own (coarse) solver
            _CACHE[key] = zcalc.set_weapon_zero(zshot, U.Yard(c['zero_yd'])) >> U.Radian
        weapon.zero_elevation = U.Radian(_CACHE[key])
    return calc, shot


@contextlib.contextmanager
def spy_filter():
    """pass-through recorder on _TrajectoryDataFilter.should_record: the integration points the filter is fed, and what it returned"""
    import py_ballisticcalc.trajectory_calc._trajectory_calc as tc
    orig = tc._TrajectoryDataFilter.should_record
    rec = []

    def should_record(self, *a, **k):
        # pass-through with a generic signature (a change may add optional arguments); the first four are position, velocity, mach, time
        data = orig(self, *a, **k)
        position, velocity, mach, time = (list(a) + [k.get('position'), k.get('velocity'), k.get('mach'), k.get('time')])[:4] if len(a) >= 4 else \
            (k.get('position', a[0] if len(a) > 0 else None), k.get('velocity', a[1] if len(a) > 1 else None),
             k.get('mach', a[2] if len(a) > 2 else None), k.get('time', a[3] if len(a) > 3 else None))
        rec.append({'t': time, 'p': position, 'v': velocity, 'a': mach, 'flag': self.current_flag, 'data': data})
        return data
    tc._TrajectoryDataFilter.should_record = should_record
    try:
        yield rec
    finally:
        tc._TrajectoryDataFilter.should_record = orig
