"""C07 - preferred units only choose how bare numbers and output are read.

bare     : every float-or-quantity parameter with a SYMBOLIC bare number n vs the explicit quantity u(n), for every unit u of the
           slot's dimension set as the preferred unit: the two resulting objects are compared field by field (terms).  The engine
           forks wherever the code branches on n (`n or default`), so the solver finds which numbers are treated specially.
explicit : explicit quantities (symbolic magnitudes) under two different preferred-unit assignments give identical terms.
"""
from symx.runner import harness
from harness.common import pybc, enum_units, with_preferred, SLOT_DIM, mkrow

FUNCS = ['py_ballisticcalc.unit.Unit.__call__', 'py_ballisticcalc.conditions.Atmo.__init__', 'py_ballisticcalc.conditions.Wind.__init__',
         'py_ballisticcalc.conditions.Shot.__init__', 'py_ballisticcalc.munition.Sight.__init__', 'py_ballisticcalc.munition.Weapon.__init__',
         'py_ballisticcalc.munition.Ammo.__init__', 'py_ballisticcalc.drag_model.DragModel.__init__', 'py_ballisticcalc.drag_model.BCPoint.__init__',
         'py_ballisticcalc.interface.Calculator.*', 'py_ballisticcalc.trajectory_data._trajectory_data.HitResult.danger_space',
         'py_ballisticcalc.trajectory_calc.set_global_max_calc_step_size']


def snap(obj, path='', out=None, depth=0):
    """deep snapshot: path -> number / term / str of every field reachable from obj"""
    p = pybc()
    from symx.core import SymFloat
    if out is None:
        out = {}
    if depth > 6:
        return out
    if isinstance(obj, p.AbstractDimension):
        out[path + '._value'] = obj._value
        out[path + '._units'] = int(obj._defined_units)
    elif isinstance(obj, (bool, int, float, str, type(None), SymFloat)):
        out[path] = obj
    elif isinstance(obj, (list, tuple)):
        out[path + '#len'] = len(obj)
        for i, e in enumerate(obj):
            snap(e, f'{path}[{i}]', out, depth + 1)
    elif isinstance(obj, dict):
        for k in sorted(obj, key=str):
            snap(obj[k], f'{path}.{k}', out, depth + 1)
    elif isinstance(obj, BaseException):
        out[path + '!raises'] = type(obj).__name__
    elif hasattr(obj, '__dict__'):
        for k in sorted(vars(obj)):
            v = vars(obj)[k]
            if callable(v):
                continue
            snap(v, f'{path}.{k}', out, depth + 1)
    else:
        out[path] = repr(type(obj))
    return out


def compare(ctx, name, a, b, info):
    from symx.core import SymFloat
    ka, kb = sorted(a), sorted(b)
    ctx.check(name, ka == kb, info=dict(info, why='different structure', only_a=[k for k in ka if k not in b][:5],
                                        only_b=[k for k in kb if k not in a][:5]))
    for k in ka:
        if k not in b:
            continue
        va, vb = a[k], b[k]
        if isinstance(va, (float, SymFloat)) or isinstance(vb, (float, SymFloat)):
            if isinstance(va, (int, float)) and isinstance(vb, (int, float)):
                ctx.check_eq(name, va, vb, rel=1e-12, abs=1e-300, info=dict(info, field=k))
            else:
                ctx.check(name, False, info=dict(info, field=k, a=repr(va), b=repr(vb)))
        else:
            ctx.check(name, va == vb, info=dict(info, field=k, a=repr(va)[:60], b=repr(vb)[:60]))


def _run(f):
    try:
        return f()
    except (ValueError, TypeError, ZeroDivisionError, ArithmeticError) as e:
        return e


# parameter table: name -> (slot, builder(arg) -> object to snapshot)
def _params():
    p = pybc()
    U = p.Unit
    import py_ballisticcalc.trajectory_calc as tcmod
    dm = lambda: p.DragModel(0.3, p.TableG7)
    atmo = _atmo(p)

    def spy_calc(method, *args, **kw):
        """Calculator entry point with the solver object replaced by a recorder (the unit under test is the coercion)"""
        calc = p.Calculator()
        rec = {}

        class Rec:
            def zero_angle(self, shot, distance):
                rec['distance'] = distance
                return p.Angular.Radian(0.01)

            def trajectory(self, shot, max_range, dist_step, extra_data=False, time_step=0.0):
                rec['max_range'], rec['dist_step'], rec['extra'], rec['time_step'] = max_range, dist_step, extra_data, time_step
                return []
        calc._calc = Rec()
        shot = p.Shot(p.Weapon(), p.Ammo(dm(), U.FPS(2700)), atmo=atmo)
        getattr(calc, method)(shot, *args, **kw)
        rec['zero'] = shot.weapon.zero_elevation
        return rec

    def danger(at_range=None, height=None, look=None):
        rows = [mkrow(p, time=float(i), dist_ft=100.0 * i, drop_ft=[0.0, 0.5, 0.2, -1.0, -3.0][i]) for i in range(5)]
        hr = p.HitResult(p.Shot(p.Weapon(), p.Ammo(dm(), U.FPS(2700)), atmo=atmo), rows, True)
        ds = hr.danger_space(U.Foot(250.0) if at_range is None else at_range, U.Foot(1.0) if height is None else height,
                             look)
        return {'at': rows.index(ds.at_range), 'begin': rows.index(ds.begin), 'end': rows.index(ds.end),
                'h': ds.target_height, 'look': ds.look_angle}

    def gstep(v):
        # public API only: the value in force right after the call, and the value a calculator created LATER - after the preferred
        # distance unit has been changed - works with (a bare number is read in the unit preferred when it was given)
        try:
            tcmod.set_global_max_calc_step_size(v)
            now = tcmod.get_global_max_calc_step_size() >> U.Foot
            with with_preferred(distance=(U.Kilometer if p.PreferredUnits.distance != U.Kilometer else U.Inch)):
                later = tcmod.get_global_max_calc_step_size() >> U.Foot
                calc = p.Calculator()
                used = calc._calc._config.max_calc_step_size_feet
            return {'step': now, 'step_seen_later': later, 'step_of_later_calculator': used}
        finally:
            tcmod.reset_globals()

    def sens(v=None, t=None):
        a = p.Ammo(dm(), U.MPS(800), U.Celsius(15))
        a.calc_powder_sens(U.MPS(820) if v is None else v, U.Celsius(30) if t is None else t)
        return a

    return {
        'Atmo.altitude': ('distance', lambda x: p.Atmo(altitude=x)),
        'Atmo.pressure': ('pressure', lambda x: p.Atmo(pressure=x)),
        'Atmo.temperature': ('temperature', lambda x: p.Atmo(temperature=x)),
        'Atmo.powder_t': ('temperature', lambda x: p.Atmo(powder_t=x)),
        'Atmo.icao.altitude': ('distance', lambda x: p.Atmo.icao(x)),
        'Vacuum.altitude': ('distance', lambda x: p.Vacuum(altitude=x)),
        'Vacuum.temperature': ('temperature', lambda x: p.Vacuum(temperature=x)),
        'Wind.velocity': ('velocity', lambda x: p.Wind(velocity=x)),
        'Wind.direction_from': ('angular', lambda x: p.Wind(direction_from=x)),
        'Wind.until_distance': ('distance', lambda x: p.Wind(until_distance=x)),
        'Shot.look_angle': ('angular', lambda x: p.Shot(None, None, look_angle=x, atmo=atmo)),
        'Shot.relative_angle': ('angular', lambda x: p.Shot(None, None, relative_angle=x, atmo=atmo)),
        'Shot.cant_angle': ('angular', lambda x: p.Shot(None, None, cant_angle=x, atmo=atmo)),
        'Sight.scale_factor': ('distance', lambda x: p.Sight('SFP', x, U.Mil(0.1), U.Mil(0.1))),
        'Sight.h_click_size': ('adjustment', lambda x: p.Sight('FFP', U.Yard(100), x, U.Mil(0.1))),
        'Sight.v_click_size': ('adjustment', lambda x: p.Sight('FFP', U.Yard(100), U.Mil(0.1), x)),
        'Sight.sfp_target_distance': ('distance', lambda x: p.Sight('SFP', U.Yard(100), U.Mil(0.1), U.Mil(0.2))._adjust_sfp_reticle_steps(x, 10.0)),
        'Weapon.sight_height': ('sight_height', lambda x: p.Weapon(sight_height=x)),
        'Weapon.twist': ('twist', lambda x: p.Weapon(twist=x)),
        'Weapon.zero_elevation': ('angular', lambda x: p.Weapon(zero_elevation=x)),
        'Ammo.mv': ('velocity', lambda x: p.Ammo(dm(), x)),
        'Ammo.powder_temp': ('temperature', lambda x: p.Ammo(dm(), U.MPS(800), powder_temp=x)),
        'Ammo.calc_powder_sens.velocity': ('velocity', lambda x: sens(v=x)),
        'Ammo.calc_powder_sens.temperature': ('temperature', lambda x: sens(t=x)),
        'Ammo.get_velocity_for_temp': ('temperature', lambda x: p.Ammo(dm(), U.MPS(800), U.Celsius(15), 0.5, True).get_velocity_for_temp(x)),
        'BCPoint.V': ('velocity', lambda x: p.BCPoint(0.3, V=x)),
        'DragModel.weight': ('weight', lambda x: p.DragModel(0.3, p.TableG7, x, U.Inch(0.3), U.Inch(1.2))),
        'DragModel.diameter': ('diameter', lambda x: p.DragModel(0.3, p.TableG7, U.Grain(150), x, U.Inch(1.2))),
        'DragModel.length': ('length', lambda x: p.DragModel(0.3, p.TableG7, U.Grain(150), U.Inch(0.3), x)),
        'DragModelMultiBC.weight': ('weight', lambda x: p.DragModelMultiBC([p.BCPoint(0.3, Mach=1.0)], p.TableG7[:3], x, U.Inch(0.3))),
        'DragModelMultiBC.diameter': ('diameter', lambda x: p.DragModelMultiBC([p.BCPoint(0.3, Mach=1.0)], p.TableG7[:3], U.Grain(150), x)),
        'Calculator.barrel_elevation_for_target': ('distance', lambda x: spy_calc('barrel_elevation_for_target', x)),
        'Calculator.set_weapon_zero': ('distance', lambda x: spy_calc('set_weapon_zero', x)),
        'Calculator.fire.range': ('distance', lambda x: spy_calc('fire', x, U.Yard(10))),
        'Calculator.fire.step': ('distance', lambda x: spy_calc('fire', U.Yard(1000), x)),
        'danger_space.at_range': ('distance', lambda x: danger(at_range=x)),
        'danger_space.target_height': ('distance', lambda x: danger(height=x)),
        'danger_space.look_angle': ('angular', lambda x: danger(look=x)),
        'set_global_max_calc_step_size': ('distance', lambda x: gstep(x)),
    }


_ATMO = []


def _atmo(p):
    if not _ATMO:
        _ATMO.append(p.Atmo.icao())
    return _ATMO[0]


PARAM_NAMES = ['Atmo.altitude', 'Atmo.pressure', 'Atmo.temperature', 'Atmo.powder_t', 'Atmo.icao.altitude', 'Vacuum.altitude',
               'Vacuum.temperature', 'Wind.velocity', 'Wind.direction_from', 'Wind.until_distance', 'Shot.look_angle',
               'Shot.relative_angle', 'Shot.cant_angle', 'Sight.scale_factor', 'Sight.h_click_size', 'Sight.v_click_size',
               'Sight.sfp_target_distance', 'Weapon.sight_height', 'Weapon.twist', 'Weapon.zero_elevation', 'Ammo.mv', 'Ammo.powder_temp',
               'Ammo.calc_powder_sens.velocity', 'Ammo.calc_powder_sens.temperature', 'Ammo.get_velocity_for_temp', 'BCPoint.V',
               'DragModel.weight', 'DragModel.diameter', 'DragModel.length', 'DragModelMultiBC.weight', 'DragModelMultiBC.diameter',
               'Calculator.barrel_elevation_for_target', 'Calculator.set_weapon_zero', 'Calculator.fire.range', 'Calculator.fire.step',
               'danger_space.at_range', 'danger_space.target_height', 'danger_space.look_angle', 'set_global_max_calc_step_size']

SLOT_OF = {'Atmo.altitude': 'distance', 'Atmo.pressure': 'pressure', 'Atmo.temperature': 'temperature', 'Atmo.powder_t': 'temperature',
           'Atmo.icao.altitude': 'distance', 'Vacuum.altitude': 'distance', 'Vacuum.temperature': 'temperature',
           'Wind.velocity': 'velocity', 'Wind.direction_from': 'angular',
           'Wind.until_distance': 'distance', 'Shot.look_angle': 'angular', 'Shot.relative_angle': 'angular', 'Shot.cant_angle': 'angular',
           'Sight.scale_factor': 'distance', 'Sight.h_click_size': 'adjustment', 'Sight.v_click_size': 'adjustment',
           'Sight.sfp_target_distance': 'distance', 'Weapon.sight_height': 'sight_height', 'Weapon.twist': 'twist',
           'Weapon.zero_elevation': 'angular', 'Ammo.mv': 'velocity', 'Ammo.powder_temp': 'temperature',
           'Ammo.calc_powder_sens.velocity': 'velocity', 'Ammo.calc_powder_sens.temperature': 'temperature',
           'Ammo.get_velocity_for_temp': 'temperature', 'BCPoint.V': 'velocity', 'DragModel.weight': 'weight', 'DragModel.diameter': 'diameter',
           'DragModel.length': 'length', 'DragModelMultiBC.weight': 'weight', 'DragModelMultiBC.diameter': 'diameter',
           'Calculator.barrel_elevation_for_target': 'distance', 'Calculator.set_weapon_zero': 'distance', 'Calculator.fire.range': 'distance',
           'Calculator.fire.step': 'distance', 'danger_space.at_range': 'distance', 'danger_space.target_height': 'distance',
           'danger_space.look_angle': 'angular', 'set_global_max_calc_step_size': 'distance'}


def _cfg_bare(tier):
    out = []
    eu = enum_units()
    for name in PARAM_NAMES:
        units = eu[SLOT_DIM[SLOT_OF[name]]]
        for u in units:
            out.append({'param': name, 'unit': u})
    return out


RANGES = {'Angular': (-6.0, 6.0), 'Temperature': (-400.0, 1000.0), 'Pressure': (0.0, 2000.0), 'Distance': (-1e5, 1e5),
          'Velocity': (-1e4, 1e4), 'Weight': (-1e4, 1e4)}


@harness('C07.bare', 'C07', configs=_cfg_bare, functions=FUNCS, engine_opts={'div_check': True, 'pin_check': True}, cost=2,
         must_reach=['check:bare_equals_explicit', 'both_constructed'],
         bounds='39 float-or-quantity parameters x every unit of the slot dimension as preferred unit; the bare number is symbolic over the '
                'whole stated range INCLUDING 0 and negatives; objects compared field by field (terms); loop-free',
         stubs=['Calculator entry points: the solver object is replaced by a recorder (the unit under test is the coercion of the argument)',
                'math.sqrt/exp/pow summarised inside Atmo'],
         assumptions=['tangent-based angular units: |n| <= 6 (principal branch)'])
def c07_bare(ctx, param, unit):
    p = pybc()
    slot, build = _params()[param]
    U = getattr(p.Unit, unit)
    lo, hi = RANGES[SLOT_DIM[slot]]
    n = ctx.real('n', lo, hi)
    with with_preferred(**{slot: U}):
        a = _run(lambda: build(n))
        b = _run(lambda: build(U(n)))
    if not isinstance(a, BaseException) and not isinstance(b, BaseException):
        ctx.reach('both_constructed')
    compare(ctx, 'bare_equals_explicit', snap(a), snap(b), {'param': param, 'unit': unit})


def _cfg_explicit(tier):
    out = []
    eu = enum_units()
    for name in PARAM_NAMES:
        slot = SLOT_OF[name]
        units = eu[SLOT_DIM[slot]]
        for i, u in enumerate(units):
            out.append({'param': name, 'unit': u, 'pref_a': units[(i + 1) % len(units)], 'pref_b': units[(i + 2) % len(units)]})
    return out


PRESETS = ['loadImperialUnits', 'loadMetricUnits', 'loadMixedUnits']


@harness('C07.explicit', 'C07', configs=_cfg_explicit, functions=FUNCS, engine_opts={'div_check': True, 'pin_check': True}, cost=2,
         must_reach=['check:explicit_independent_of_preference'],
         bounds='the same 39 parameters given as an explicit quantity (symbolic magnitude, every unit) under two different preferred units of '
                'the slot and under the three shipped presets: identical terms (display units of derived fields may differ, magnitudes may not)')
def c07_explicit(ctx, param, unit, pref_a, pref_b):
    p = pybc()
    slot, build = _params()[param]
    U = getattr(p.Unit, unit)
    lo, hi = RANGES[SLOT_DIM[slot]]
    n = ctx.real('n', lo, hi)
    snaps = []
    with with_preferred(**{slot: getattr(p.Unit, pref_a)}):
        snaps.append(snap(_run(lambda: build(U(n)))))
    with with_preferred(**{slot: getattr(p.Unit, pref_b)}):
        snaps.append(snap(_run(lambda: build(U(n)))))
    for preset in PRESETS:
        with with_preferred():
            getattr(p, preset)()
            snaps.append(snap(_run(lambda: build(U(n)))))
    base = {k: v for k, v in snaps[0].items() if not k.endswith('._units')}
    for s in snaps[1:]:
        compare(ctx, 'explicit_independent_of_preference', base, {k: v for k, v in s.items() if not k.endswith('._units')},
                {'param': param, 'unit': unit})


# ---------------------------------------------------------------------------------------------------------------------------------
# the same RECEIVER object asked twice with the same bare number, the preferred unit changed in between (and an explicit quantity first)

def _receivers():
    p = pybc()
    U = p.Unit
    dm = lambda: p.DragModel(0.3, p.TableG7)
    atmo = _atmo(p)

    def hit():
        rows = [mkrow(p, time=float(i), dist_ft=100.0 * i, drop_ft=[0.0, 0.5, 0.2, -1.0, -3.0][i]) for i in range(5)]
        return p.HitResult(p.Shot(p.Weapon(), p.Ammo(dm(), U.FPS(2700)), atmo=atmo), rows, True)

    def ds(hr, **kw):
        d = hr.danger_space(kw.get('at', U.Foot(250.0)), kw.get('h', U.Foot(1.0)), kw.get('look', U.Radian(0.0)))
        return {'at': hr.trajectory.index(d.at_range), 'begin': hr.trajectory.index(d.begin), 'end': hr.trajectory.index(d.end), 'h': d.target_height, 'look': d.look_angle}

    def calc():
        c = p.Calculator()
        rec = {}

        class Rec:
            def zero_angle(self, shot, distance):
                rec['distance'] = distance
                return p.Angular.Radian(0.01)

            def trajectory(self, shot, max_range, dist_step, extra_data=False, time_step=0.0):
                rec['max_range'], rec['dist_step'] = max_range, dist_step
                return []
        c._calc = Rec()
        c._rec = rec
        c._shot = p.Shot(p.Weapon(), p.Ammo(dm(), U.FPS(2700)), atmo=atmo)
        return c

    def via(c, method, *a):
        getattr(c, method)(c._shot, *a)
        return dict(c._rec)
    return {
        'Ammo.get_velocity_for_temp': ('temperature', lambda: p.Ammo(dm(), U.MPS(800), U.Celsius(15), 0.5, True), lambda r, x: r.get_velocity_for_temp(x)),
        'Ammo.calc_powder_sens.temperature': ('temperature', lambda: p.Ammo(dm(), U.MPS(800), U.Celsius(15)), lambda r, x: r.calc_powder_sens(U.MPS(820), x)),
        'Ammo.calc_powder_sens.velocity': ('velocity', lambda: p.Ammo(dm(), U.MPS(800), U.Celsius(15)), lambda r, x: r.calc_powder_sens(x, U.Celsius(30))),
        'Sight.sfp_target_distance': ('distance', lambda: p.Sight('SFP', U.Yard(100), U.Mil(0.1), U.Mil(0.2)), lambda r, x: r._adjust_sfp_reticle_steps(x, 10.0)),
        'danger_space.at_range': ('distance', hit, lambda r, x: ds(r, at=x)),
        'danger_space.target_height': ('distance', hit, lambda r, x: ds(r, h=x)),
        'danger_space.look_angle': ('angular', hit, lambda r, x: ds(r, look=x)),
        'Calculator.set_weapon_zero': ('distance', calc, lambda r, x: via(r, 'set_weapon_zero', x)),
        'Calculator.barrel_elevation_for_target': ('distance', calc, lambda r, x: via(r, 'barrel_elevation_for_target', x)),
        'Calculator.fire.range': ('distance', calc, lambda r, x: via(r, 'fire', x, U.Yard(10))),
        'Calculator.fire.step': ('distance', calc, lambda r, x: via(r, 'fire', U.Yard(1000), x)),
        'Atmo.icao.altitude': ('distance', lambda: p.Atmo, lambda r, x: r.icao(x)),
        'Unit.call': ('distance', lambda: p.PreferredUnits, lambda r, x: r.distance(x)),
    }


RECEIVER_NAMES = ['Ammo.get_velocity_for_temp', 'Ammo.calc_powder_sens.temperature', 'Ammo.calc_powder_sens.velocity', 'Sight.sfp_target_distance',
                  'danger_space.at_range', 'danger_space.target_height', 'danger_space.look_angle', 'Calculator.set_weapon_zero',
                  'Calculator.barrel_elevation_for_target', 'Calculator.fire.range', 'Calculator.fire.step', 'Unit.call']
RECEIVER_SLOT = {'Ammo.get_velocity_for_temp': 'temperature', 'Ammo.calc_powder_sens.temperature': 'temperature', 'Ammo.calc_powder_sens.velocity': 'velocity',
                 'Sight.sfp_target_distance': 'distance', 'danger_space.at_range': 'distance', 'danger_space.target_height': 'distance',
                 'danger_space.look_angle': 'angular', 'Calculator.set_weapon_zero': 'distance', 'Calculator.barrel_elevation_for_target': 'distance',
                 'Calculator.fire.range': 'distance', 'Calculator.fire.step': 'distance', 'Atmo.icao.altitude': 'distance', 'Unit.call': 'distance'}


def _cfg_again(tier):
    out = []
    eu = enum_units()
    for name in RECEIVER_NAMES:
        units = eu[SLOT_DIM[RECEIVER_SLOT[name]]]
        pairs = [(units[i], units[(i + 1) % len(units)]) for i in range(len(units))]
        if tier == 'quick':
            pairs = pairs[:3]
        for a, b in pairs:
            out.append({'param': name, 'first': a, 'second': b})
    return out


@harness('C07.again', 'C07', configs=_cfg_again, functions=FUNCS, engine_opts={'div_check': True, 'pin_check': True}, cost=2,
         must_reach=['check:same_number_read_in_the_unit_now_preferred'],
         bounds='12 methods that take a float-or-quantity, called on ONE receiver object three times: an explicit quantity whose base magnitude equals the bare number, then the bare '
                'number n (symbolic) under preferred unit A, then the same n under preferred unit B (quick: 3 unit pairs per method): each answer equals that of a fresh receiver '
                'given the explicit quantity - nothing is remembered from the earlier calls')
def c07_again(ctx, param, first, second):
    p = pybc()
    slot, make, call = _receivers()[param]
    A, B = getattr(p.Unit, first), getattr(p.Unit, second)
    lo, hi = RANGES[SLOT_DIM[slot]]
    n = ctx.real('n', lo, hi)
    r = make()
    with with_preferred(**{slot: A}):
        # an explicit quantity whose BASE-unit magnitude is the number n (so that it hashes / compares like the bare number)
        q0 = A(0.0)
        q0._value = n
        _run(lambda: call(r, q0))
        got_a = _run(lambda: call(r, n))
        want_a = _run(lambda: call(make(), A(n)))
    with with_preferred(**{slot: B}):
        got_b = _run(lambda: call(r, n))
        want_b = _run(lambda: call(make(), B(n)))
    compare(ctx, 'same_number_read_in_the_unit_now_preferred', snap(got_a), snap(want_a), {'param': param, 'call': 'second: bare under ' + first})
    compare(ctx, 'same_number_read_in_the_unit_now_preferred', snap(got_b), snap(want_b), {'param': param, 'call': 'third: bare under ' + second})


# ---------------------------------------------------------------------------------------------------------------------------------
# whole computations with explicit inputs under different preferred-unit assignments (carriers, symbolic request)

def _cfg_compute(tier):
    out = []
    plan = [('A', 100.0, 'two'), ('B', 60.0, 'left')] if tier == 'quick' else [('A', 100.0, 'two'), ('B', 60.0, 'left'), ('C', 100.0, 'tail'), ('A', 30.0, 'none')]
    for (c, step, wind) in plan:
        for op in ('fire', 'fire_extra', 'zero', 'danger_space'):
            out.append({'carrier': c, 'step_ft': step, 'wind': wind, 'op': op})
    # a wind whose until-distance was assigned as an explicit quantity after construction (its unit label is its own, the other wind's is the preferred one)
    out.append({'carrier': 'A', 'step_ft': 100.0, 'wind': 'two', 'op': 'fire_wind_relabelled'})
    return out


def _assignments(p):
    """the three shipped presets + two assignments that set every slot to the last / middle unit of its dimension"""
    eu = enum_units()
    last = {sl: getattr(p.Unit, eu[d][-1]) for sl, d in SLOT_DIM.items()}
    mid = {sl: getattr(p.Unit, eu[d][len(eu[d]) // 2]) for sl, d in SLOT_DIM.items()}
    small = dict(last, distance=p.Unit.Inch, temperature=p.Unit.Kelvin)
    return [('imperial', None), ('metric', None), ('mixed', None), ('last', last), ('middle', mid), ('inch / kelvin', small)]


@harness('C07.compute', 'C07', configs=_cfg_compute, functions=FUNCS, cost=12, engine_opts={'div_check': False, 'nl_axioms_in_feasibility': False},
         must_reach=['check:result_independent_of_preferred_units'],
         bounds='fire (plain / extra), set_weapon_zero and danger_space on carriers A, B [thorough: + C, finer A] with every input an explicit quantity and SYMBOLIC range / '
                'record step (cells of the request plane; zero distance concrete): run under the three shipped presets and under two assignments that set all 15 slots to '
                'other units of their dimension (one with inches / kelvin); a variant with a wind whose until-distance carries its own unit label; every row field identical (doubles bit-for-bit, symbolic fields as identical terms)')
def c07_compute(ctx, carrier, step_ft, wind, op):
    from harness import carriers
    p = pybc()
    U = p.Unit
    results = []
    R0 = ctx.real('range_ft', 2 * step_ft, 5 * step_ft)
    S0 = ctx.real('record_step_ft', step_ft, 5 * step_ft)
    for (name, slots) in _assignments(p):
        with with_preferred(**(slots or {})):
            if slots is None:
                {'imperial': p.loadImperialUnits, 'metric': p.loadMetricUnits, 'mixed': p.loadMixedUnits}[name]()
            calc, shot = carriers.make(carrier, step_ft, wind)
            R, S = U.Foot(R0), U.Foot(S0)
            if op == 'fire_wind_relabelled':
                far = shot.winds[-1]
                far.until_distance = U.Meter(far.until_distance >> U.Meter)
            try:
                if op in ('fire', 'fire_wind_relabelled'):
                    out = [tuple(getattr(x, 'raw_value', x) for x in r) for r in calc.fire(shot, R, S).trajectory]
                elif op == 'fire_extra':
                    out = [tuple(getattr(x, 'raw_value', x) for x in r) for r in calc.fire(shot, R, S, True).trajectory]
                elif op == 'zero':
                    out = [(calc.set_weapon_zero(shot, U.Foot(3.0 * step_ft)).raw_value,)]
                else:
                    hr = calc.fire(shot, R, S, True)
                    ds = hr.danger_space(U.Foot(1.5 * step_ft), U.Inch(20.0), U.Radian(0.0))
                    out = [(hr.trajectory.index(ds.begin), hr.trajectory.index(ds.end), hr.trajectory.index(ds.at_range), ds.target_height.raw_value)]
            except ArithmeticError:
                out = [('arith',)]
            results.append((name, out))
    base = results[0][1]
    for (name, out) in results[1:]:
        same = len(out) == len(base) and all(len(a) == len(b) and all(ctx.same_term(x, y) if (ctx.is_symbolic(x) or ctx.is_symbolic(y) or isinstance(x, float)) else x == y
                                                                      for x, y in zip(a, b)) for a, b in zip(out, base))
        ctx.check('result_independent_of_preferred_units', same, info={'assignment': name, 'op': op})


@harness('C07.globals', 'C07', functions=['py_ballisticcalc._load_config', 'py_ballisticcalc._basic_config', 'py_ballisticcalc.unit.PreferredUnits.set'],
         must_reach=['check:choosing_units_touches_nothing_but_the_slots'],
         bounds='with a symbolic non-default global default step in force: loading each of the three shipped presets, PreferredUnits.set(...) and PreferredUnits.defaults() change '
                'nothing but the 15 slots - every other module global of the package (global step, powder-sensitivity flag, solver constants) is the same term / value afterwards')
def c07_globals(ctx):
    p = pybc()
    import sys
    import py_ballisticcalc.trajectory_calc as tcpkg
    g = ctx.real('global_step_ft', 1e-3, 50)

    def snap_globals():
        out = {}
        for name, m in sorted(sys.modules.items()):
            if name.startswith('py_ballisticcalc') and m is not None:
                for k, v in vars(m).items():
                    if not k.startswith('__') and isinstance(v, (int, float, str, bool, type(None))) and not callable(v):
                        out[f'{name}.{k}'] = v
        return out
    try:
        tcpkg.set_global_max_calc_step_size(p.Distance.Foot(g))        # through the public setter (no private name of the package is touched)
        before = snap_globals()
        for action in ('loadImperialUnits', 'loadMetricUnits', 'loadMixedUnits', 'set', 'defaults'):
            with with_preferred():
                if action == 'set':
                    p.PreferredUnits.set(distance=p.Unit.Meter, velocity='mps')
                elif action == 'defaults':
                    p.PreferredUnits.defaults()
                else:
                    getattr(p, action)()
                after = snap_globals()
                changed = [k for k in before if not (ctx.same_term(before[k], after.get(k)) if isinstance(before[k], float) else before[k] == after.get(k))]
                ctx.check('choosing_units_touches_nothing_but_the_slots', changed == [], info={'action': action, 'changed': changed[:4]})
                c = p.Calculator()
                ctx.check_eq('calculator_created_after_choosing_units_has_the_global_step', c._calc._config.max_calc_step_size_feet, g, rel=1e-12, info={'action': action})
    finally:
        tcpkg.reset_globals()
