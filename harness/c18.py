"""C18 - configuration is honoured, local to its calculator, and parsed faithfully.

config  : create_interface_config / Calculator on every subset of the 8 settings with symbolic values; documented defaults; the global
          default-step setter over histories of set / reset / create (pattern H), rejection of non-positive values; locality.
          (That the settings GOVERN the computation - step, gravity, limits, accuracy, iteration cap - is decided where they are used:
          C01.step (air advance <= max_step/2, gravity), C04.reason (limits), C02.loop (accuracy, cap) run on symbolic Config values.)
names   : z3 sequence theory - a symbolic string constrained to the regular language  blanks* . anycase(name) . blanks*  goes through the
          real _parse_unit / PreferredUnits.set / _parse_value (with a symbolic numeric prefix): it resolves to the unit the documented table
          gives, for every enum name and alias, radian included.
unknown : a symbolic string different from every known key: None / settings unchanged / UnitAliasError; PreferredUnits attribute names that
          are not slots must not be stored as units.
"""
import itertools

from symx.runner import harness
from harness.common import pybc, with_preferred, enum_units, SLOT_DIM, DIST_UNITS

FUNCS = ['py_ballisticcalc.interface_config.create_interface_config', 'py_ballisticcalc.trajectory_calc.set_global_max_calc_step_size',
         'py_ballisticcalc.trajectory_calc.reset_globals', 'py_ballisticcalc.unit._parse_unit', 'py_ballisticcalc.unit._parse_value',
         'py_ballisticcalc.unit._find_unit_by_alias', 'py_ballisticcalc.unit.PreferredUnits.set']
SETTINGS = ['max_calc_step_size_feet', 'chart_resolution', 'cZeroFindingAccuracy', 'cMinimumVelocity', 'cMaximumDrop', 'cMaxIterations',
            'cGravityConstant', 'cMinimumAltitude']
from fractions import Fraction as F
DEFAULTS = {'max_calc_step_size_feet': 0.5, 'cMinimumVelocity': 50.0, 'cMaximumDrop': -15000, 'cMaxIterations': 20,
            'cZeroFindingAccuracy': 0.000005, 'cMinimumAltitude': -1410.748}


def _cfg_config(tier):
    subsets = []
    for r in range(0, 9):
        for c in itertools.combinations(range(8), r):
            subsets.append(list(c))
    if tier == 'quick':
        subsets = [s for i, s in enumerate(subsets) if len(s) in (0, 1, 7, 8) or i % 7 == 0]
    return [{'subset': s} for s in subsets]


@harness('C18.config', 'C18', configs=_cfg_config, functions=FUNCS, must_reach=['check:given_settings_are_used', 'check:unspecified_take_defaults'],
         bounds='every subset of the 8 solver settings (quick: all of size 0, 1, 7, 8 and every 7th other; thorough: all 256) with symbolic values; a second '
                'calculator with other symbolic values; documented defaults (0.5 ft step, standard gravity 9.80665 m/s^2 to 2e-7)')
def c18_config(ctx, subset):
    p = pybc()
    given = {SETTINGS[i]: ctx.real(f'set_{SETTINGS[i]}', -1e5, 1e5) for i in subset}
    calc = p.Calculator(_config=dict(given))
    cfg = calc._calc._config
    for k in SETTINGS:
        if k in given:
            ctx.check('given_settings_are_used', ctx.same_term(getattr(cfg, k), given[k]), info={'setting': k})
        elif k in DEFAULTS:
            ctx.check('unspecified_take_defaults', getattr(cfg, k) == DEFAULTS[k], info={'setting': k})
    if 'cGravityConstant' not in given:
        g_std = F(980665, 100000) / F(3048, 10000)
        ctx.check('unspecified_take_defaults', abs(F(-cfg.cGravityConstant) - g_std) <= g_std * F(2, 10 ** 7), info={'setting': 'gravity'})
    ctx.check('gravity_vector_from_own_config', ctx.same_term(calc._calc.gravity_vector.y, cfg.cGravityConstant))
    ctx.check('calc_step_from_own_config', ctx.same_term(calc._calc.get_calc_step() * 2, cfg.max_calc_step_size_feet)
              or ctx.same_term(calc._calc.get_calc_step(), cfg.max_calc_step_size_feet / 2.0))
    # locality: another calculator with other values does not change this one
    before = tuple(cfg)
    other = p.Calculator(_config={k: ctx.real(f'other_{k}', -1e5, 1e5) for k in SETTINGS})
    ctx.check('settings_are_local', calc._calc._config is cfg and all(ctx.same_term(a, b) for a, b in zip(before, tuple(calc._calc._config)))
              and other._calc._config is not cfg and other._calc is not calc._calc)


def _cfg_global(tier):
    n = 3 if tier == 'quick' else 5
    ops = ['set', 'reset', 'create', 'set_bad']        # 'create' alternates between Calculator() and Calculator(settings without a step)
    seqs = [list(s) for s in itertools.product(range(4), repeat=n)]
    if tier == 'quick':
        seqs = seqs[::1]
    return [{'seq': [ops[i] for i in s], 'unit': DIST_UNITS[sum(s) % len(DIST_UNITS)]} for s in seqs if 2 in s]


@harness('C18.global_step', 'C18', configs=_cfg_global, functions=FUNCS, must_reach=['check:creation_time_value', 'check:nonpositive_rejected'],
         bounds='every sequence of length 3 (quick) / 5 (thorough) over {set(symbolic value, quantity in a distance unit or bare), reset, create calculator, '
                'set(non-positive symbolic)} that creates at least one calculator: each calculator keeps the value in force at its creation')
def c18_global_step(ctx, seq, unit):
    p = pybc()
    import py_ballisticcalc.trajectory_calc as tcpkg
    U = getattr(p.Unit, unit)
    created = []
    try:
        tcpkg.reset_globals()
        current = 0.5
        with with_preferred(distance=U):
            for i, op in enumerate(seq):
                if op == 'set':
                    v = ctx.real(f'value{i}', 1e-6, 1e4)           # in `unit`
                    tcpkg.set_global_max_calc_step_size(U(v) if i % 2 else v)
                    current = U(v) >> p.Unit.Foot
                elif op == 'set_bad':
                    v = ctx.real(f'bad{i}', -1e4, 0)
                    try:
                        tcpkg.set_global_max_calc_step_size(U(v) if i % 2 else v)
                        rejected = False
                    except ValueError:
                        rejected = True
                    ctx.check('nonpositive_rejected', rejected)
                    ctx.check_eq('rejected_value_leaves_global', tcpkg.get_global_max_calc_step_size() >> p.Unit.Foot, current, rel=1e-12)
                elif op == 'reset':
                    tcpkg.reset_globals()
                    current = 0.5
                else:
                    c = p.Calculator() if i % 2 else p.Calculator(_config={'cMaxIterations': 10, 'cMinimumVelocity': 40.0})
                    created.append((c, current))
                    if i % 3 == 0:          # some calculators are inspected at once, the others are first touched after the whole sequence
                        ctx.check_eq('creation_time_value', c._calc._config.max_calc_step_size_feet, current, rel=1e-12)
            for c, want in created:
                # calculators not inspected at creation are first touched here, after every later set / reset of the global
                ctx.check_eq('creation_time_value', c._calc._config.max_calc_step_size_feet, want, rel=1e-12, info={'later': True})
        if 'set_bad' not in seq:
            ctx.reach('check:nonpositive_rejected')
    finally:
        tcpkg.reset_globals()


# ---------------------------------------------------------------------------------------------------------------------------------
# strings


def _names():
    """(spelling, expected unit name, kind) for every enum name and every alias of the documented table"""
    p = pybc()
    import py_ballisticcalc.unit as unit
    out = []
    for u in p.Unit:
        out.append((u.name, u.name, 'enum'))
    for aliases, u in unit.UnitAliases.items():
        for a in aliases:
            out.append((a, u.name, 'alias'))
    return out


def _known_keys():
    p = pybc()
    import py_ballisticcalc.unit as unit
    keys = set()
    for u in p.Unit:
        keys.add(u.name)
        keys.add(u.name.lower())
    for aliases in unit.UnitAliases:
        for a in aliases:
            keys.add(a)
            keys.add(a.lower())
    for k in dir(p.PreferredUnits):
        keys.add(k)
    return sorted(keys)


def _setup_strings():
    from symx import strings
    if not strings.KNOWN_KEYS:
        strings.KNOWN_KEYS[:] = _known_keys()
    from symx import stubs
    if stubs.installed():
        strings.install()
    return strings


def _cfg_names(tier):
    names = _names()
    if tier == 'quick':
        seen = set()
        sel = []
        for (s, u, kind) in names:
            special = kind == 'alias' and (s != s.lower() or not s.isascii())      # written with capitals / symbols in the table
            if kind == 'enum' or u not in seen or special:
                sel.append((s, u, kind))
                if kind == 'alias':
                    seen.add(u)
        names = sel
    return [{'spelling': s, 'unit': u, 'kind': k} for (s, u, k) in names]


@harness('C18.names', 'C18', configs=_cfg_names, functions=FUNCS, cost=2,
         must_reach=['check:name_resolves_to_its_unit', 'check:setter_stores_that_unit', 'check:value_string_resolves'],
         bounds='every enum name and alias (quick: enum names + first alias per unit; thorough: all ~200), each as a symbolic string over '
                'blanks{0,2} . any letter case . blanks{0,2} (z3 regular-language constraint, length <= |name| + 4); value strings = symbolic number '
                '(<= 6 characters of the code\'s own number pattern) . blanks{0,2} . name in any case',
         stubs=['str.strip / str.lower modelled in the z3 sequence theory (ASCII case mapping; whitespace = space, tab, LF, CR, VT, FF)',
                'hasattr / getattr / re.match / float inside py_ballisticcalc.unit: fork over the finite key set read from the real objects; re.match for the two '
                'patterns of _parse_value on a (number part, unit part) structured string'],
         outside=['Python full-Unicode case mapping (only ASCII letters vary in case)', 'TOML syntax (tomllib itself is replaced by a stub that returns the symbolic spelling as the value of the slot in [pybc.preferred_units]; the real loader _load_config runs on it)'])
def c18_names(ctx, spelling, unit, kind):
    p = pybc()
    strings = _setup_strings()
    import py_ballisticcalc.unit as um
    want = p.Unit[unit]
    s = ctx.structured_string('s', [('ws', 2), ('ci', spelling), ('ws', 2)])
    got = um._parse_unit(s)
    ctx.check('name_resolves_to_its_unit', got is want, info={'spelling': spelling, 'got': type(got).__name__})
    # preferred-unit setter: a slot of the right dimension
    dim = next(d for d, us in enum_units().items() if unit in us)
    slot = next(sl for sl, d in SLOT_DIM.items() if d == dim)
    other = next(u for u in enum_units()[dim] if u != unit)
    with with_preferred(**{slot: p.Unit[other]}):
        p.PreferredUnits.set(**{slot: s})
        ctx.check('setter_stores_that_unit', getattr(p.PreferredUnits, slot) is want, info={'slot': slot, 'stored': type(getattr(p.PreferredUnits, slot)).__name__ + ':' + str(int(getattr(p.PreferredUnits, slot))) if isinstance(getattr(p.PreferredUnits, slot), int) else type(getattr(p.PreferredUnits, slot)).__name__})
    # the configuration-file door: the real loader (_load_config / basicConfig) with the TOML reader replaced by a stub that hands back
    # the symbolic spelling in the [pybc.preferred_units] table - whatever the loader does with unit names, the slot ends up at that unit
    import py_ballisticcalc as pkg

    class _Toml:
        TOMLDecodeError = getattr(getattr(pkg, 'tomllib', None), 'TOMLDecodeError', ValueError)

        @staticmethod
        def load(fp, **kw):
            return {'pybc': {'preferred_units': {slot: s}, 'calculator': {}}}

        @staticmethod
        def loads(text, **kw):
            return _Toml.load(None)
    if hasattr(pkg, 'tomllib') and hasattr(pkg, '_load_config'):
        real = pkg.tomllib
        pkg.tomllib = _Toml
        try:
            with with_preferred(**{slot: p.Unit[other]}):
                pkg._load_config(__file__, True)
                st = getattr(p.PreferredUnits, slot)
                ctx.check('setter_stores_that_unit', st is want, info={'slot': slot, 'door': 'config file', 'stored': type(st).__name__ + (':' + str(int(st)) if isinstance(st, int) else '')})
        finally:
            pkg.tomllib = real
    # value string with a numeric prefix
    if not (spelling[0].isdigit() or spelling[0] == '.'):
        whole = ctx.structured_string('value_string', [('num', 6), ('spaces', 2), ('ci', spelling), ('spaces', 1)])
        try:
            q = um._parse_value(whole, None)
            ok = q is not None and q.units is want
            info = {'units': repr(getattr(q, 'units', None))}
        except p.UnitAliasError as e:
            ok, info = False, {'raised': 'UnitAliasError'}
        ctx.check('value_string_resolves', ok, info=dict(info, spelling=spelling))
    else:
        ctx.reach('check:value_string_resolves')


def z3_spaces():
    import z3
    return z3.Loop(z3.Re(z3.StringVal(' ')), 0, 2)


def _cfg_unknown(tier):
    return [{'case': 'free', 'lc_len': 3 if tier == 'quick' else 5}, {'case': 'non_slot_attributes'}]


@harness('C18.unknown', 'C18', configs=_cfg_unknown, functions=FUNCS, cost=3,
         must_reach=['check:unknown_name_selects_nothing', 'check:non_slot_attribute_is_not_a_unit'],
         bounds='a symbolic string blank{0,1} . 1..3 (quick) / 1..5 (thorough) lower-case letters, digits or punctuation . blank{0,1} whose stripped lower-case form differs from every known key (enum names, aliases, '
                'PreferredUnits attribute names): parse gives None, the setter changes nothing, a value string raises; and every attribute name of PreferredUnits '
                'that is not one of the 15 slots (methods, dunders) given as a unit name')
def c18_unknown(ctx, case, lc_len=3):
    p = pybc()
    strings = _setup_strings()
    import py_ballisticcalc.unit as um
    import z3
    PU = p.PreferredUnits
    slots = list(PU.__dataclass_fields__)
    if case == 'free':
        s = ctx.structured_string('s', [('ws', 1), ('lc', lc_len), ('ws', 1)])
        got = um._parse_unit(s)
        norm = s.strip().lower() if True else None
        # on this path the normalised string equals none of the known keys (otherwise the path is another harness's subject)
        if isinstance(norm, str) and not ctx.is_symbolic(norm) and type(norm) is str:
            known = norm in strings.KNOWN_KEYS or norm in [k.lower() for k in strings.KNOWN_KEYS]
        else:
            known = norm.concretize() is not None if hasattr(norm, 'concretize') else False
        if known:
            return
        ctx.check('unknown_name_selects_nothing', got is None, info={'got': type(got).__name__})
        before = {k: getattr(PU, k) for k in slots}
        with with_preferred():
            PU.set(distance=s)
            ctx.check('unknown_name_selects_nothing', all(getattr(PU, k) is before[k] for k in slots), info={'what': 'setter'})
        ctx.reach('check:non_slot_attribute_is_not_a_unit')
    else:
        ctx.reach('check:unknown_name_selects_nothing')
        for name in sorted(set(dir(PU)) - set(slots)):
            got = um._parse_unit(name)
            ctx.check('non_slot_attribute_is_not_a_unit', got is None or isinstance(got, p.Unit), info={'name': name, 'got': type(got).__name__})
            with with_preferred():
                before = PU.distance
                PU.set(distance=name)
                ctx.check('non_slot_attribute_is_not_a_unit', isinstance(PU.distance, p.Unit) and PU.distance is before, info={'name': name, 'stored': type(PU.distance).__name__})
