"""C15 - event rows mark each sight-line and sonic crossing once, within one step.

filter : the real _TrajectoryDataFilter (all flags) with the real setup_seen_zero, fed K symbolic integration points with increasing x and t
         (heights, speeds, speeds of sound symbolic; look angle concrete per configuration so that the sight line is linear in x).
fire   : carriers with symbolic range / record step: flagged rows of the real fire(extra_data=True) match the crossings of the
         integration points seen by a pass-through spy; HitResult.zeros().
"""
import math

from symx.runner import harness
from harness.common import pybc
from harness import carriers

FUNCS = ['py_ballisticcalc.trajectory_calc._trajectory_calc._TrajectoryDataFilter.*',
         'py_ballisticcalc.trajectory_data._trajectory_data.HitResult.zeros']


def _tc():
    import py_ballisticcalc.trajectory_calc._trajectory_calc as tc
    return tc


def _cfg_filter(tier):
    out = []
    ks = [4] if tier == 'quick' else [4, 5, 6]
    for k in ks:
        for look in (0.0, 0.35, -0.35):
            for start in ('below_up', 'below_down', 'above', 'above_down'):
                out.append({'k': k, 'look': look, 'start': start, 'rec': 'sparse'})
    # range rows interleaved with events: fewer points (the record-distance comparisons multiply the paths)
    for look in ((0.0,) if tier == 'quick' else (0.0, 0.35, -0.35)):
        for start in ('below_up', 'above'):
            out.append({'k': 2 if tier == 'quick' else 3, 'look': look, 'start': start, 'rec': 'dense'})
    return out


@harness('C15.filter', 'C15', configs=_cfg_filter, functions=FUNCS, cost=8,
         engine_opts={'div_check': False, 'nl_axioms_in_feasibility': False},
         must_reach=['check:zero_up_exactly_at_first_upward_crossing', 'check:zero_down_exactly_at_first_downward_crossing',
                     'check:mach_exactly_when_speed_falls_through_sound', 'check:flagged_point_gives_row_with_flag', 'check:within_one_step',
                     'up', 'down', 'mach'],
         bounds='K = 4 (quick) / 4..6 (thorough) symbolic integration points after the muzzle point (K = 2 / 3 when range rows interleave); look angle in {0, +-0.35 rad}; muzzle below the '
                'sight line with the barrel above / below it, or muzzle above/on the line; record step sparse (no range rows) or dense (range rows '
                'interleave with events)',
         stubs=['Vector.magnitude returns the x component for vectors (v, 0, 0) (the speed fed to the filter is the symbolic v_k)'],
         assumptions=['a trajectory that starts below the sight line with the barrel pointing below it never rises above the line (concavity)'])
def c15_filter(ctx, k, look, start, rec):
    p, tc = pybc(), _tc()
    import py_ballisticcalc.vector._vector as vec
    from py_ballisticcalc.vector import Vector
    TF = p.TrajFlag
    T = math.tan(look)
    y0 = ctx.real('muzzle_y', -1, 1)
    if start in ('above', 'above_down'):
        ctx.assume(y0 >= 0)
        elev = look + (0.01 if start == 'above' else -0.01)     # sight below / on the bore line; barrel above or below the sight line
        start = 'above'
    else:
        ctx.assume(y0 < 0)
        elev = look + (0.01 if start == 'below_up' else -0.01)
    xs, ys, vs, as_, ts = [0.0], [y0], [], [], [0.0]
    for i in range(k + 1):
        vs.append(ctx.real(f'speed{i}', 1, 5000))
        as_.append(ctx.real(f'sound{i}', 900, 1300))
        if i:
            xs.append(ctx.real(f'x{i}', 0, 1e5))
            ys.append(ctx.real(f'y{i}', -1e4, 1e4))
            ts.append(ctx.real(f't{i}', 0, 1e3))
            ctx.assume((xs[i] > xs[i - 1]) & (ts[i] > ts[i - 1]))
    d = [ys[i] - xs[i] * T for i in range(k + 1)]          # signed height above the sight line
    if start == 'below_down':
        for i in range(1, k + 1):
            ctx.assume(d[i] < 0)
    step = 1e9 if rec == 'sparse' else ctx.real('record_step', 1, 1e5)
    if rec == 'dense':
        for i in range(1, k + 1):
            ctx.assume(xs[i] - xs[i - 1] <= step)      # record step not smaller than the integration advance (statement's precondition)
    orig = vec.Vector.magnitude
    vec.Vector.magnitude = lambda self: self.x if (self.y == 0 and self.z == 0 and not isinstance(self.y, bool)) else orig(self)
    try:
        f = tc._TrajectoryDataFilter(filter_flags=TF.ALL, range_step=step, initial_position=Vector(0.0, y0, 0.0),
                                     initial_velocity=Vector(vs[0], 0.0, 0.0), time_step=0.0)
        f.setup_seen_zero(y0, elev, look)
        flags, datas = [], []
        for i in range(k + 1):
            f.clear_current_flag()
            data = f.should_record(Vector(xs[i], ys[i], 0.0), Vector(vs[i], 0.0, 0.0), as_[i], ts[i])
            flags.append(f.current_flag)
            datas.append(data)
    finally:
        vec.Vector.magnitude = orig
    # ---- oracle from the statement
    up_at = None
    if start != 'above':
        for i in range(1, k + 1):
            if d[i] >= 0:
                up_at = i
                break
    down_at = None
    if start == 'above':
        first = 1
    elif up_at is not None:
        first = up_at + 1
    else:
        first = None
    if first is not None and start != 'below_down':
        for i in range(first, k + 1):
            if d[i] < 0:
                down_at = i
                break
    if up_at is not None:
        ctx.reach('up')
    if down_at is not None:
        ctx.reach('down')
    for i in range(k + 1):
        ctx.check('zero_up_exactly_at_first_upward_crossing', bool(flags[i] & TF.ZERO_UP) == (i == up_at), info={'i': i, 'up_at': up_at})
        ctx.check('zero_down_exactly_at_first_downward_crossing', bool(flags[i] & TF.ZERO_DOWN) == (i == down_at), info={'i': i, 'down_at': down_at})
        mach_here = (i >= 1) and ((vs[i - 1] / as_[i - 1] > 1) & (vs[i] / as_[i] <= 1))
        if i >= 1 and bool(flags[i] & TF.MACH):
            ctx.reach('mach')
        ctx.check('mach_exactly_when_speed_falls_through_sound', bool(flags[i] & TF.MACH) == mach_here if isinstance(mach_here, bool)
                  else (mach_here if bool(flags[i] & TF.MACH) else ~mach_here), info={'i': i})
        event = flags[i] & (TF.ZERO | TF.MACH)
        if event:
            ctx.check('flagged_point_gives_row_with_flag', datas[i] is not None)
            row = datas[i]
            # the flagged row is this integration point or the range row interpolated inside this same step
            if flags[i] & TF.ZERO_UP:
                dr = row.position.y - row.position.x * T
                ctx.check('within_one_step', (ctx.abs(dr) <= d[i] - d[i - 1]) & (row.time <= ts[i]) & (row.time >= ts[i - 1]), info={'ev': 'up', 'i': i})
            if flags[i] & TF.ZERO_DOWN:
                dr = row.position.y - row.position.x * T
                ctx.check('within_one_step', (ctx.abs(dr) <= d[i - 1] - d[i]) & (row.time <= ts[i]) & (row.time >= ts[i - 1]), info={'ev': 'down', 'i': i})
            if flags[i] & TF.MACH:
                m_row = (row.velocity.x) / row.mach
                ctx.check('within_one_step', (m_row <= vs[i - 1] / as_[i - 1]) & (m_row >= vs[i] / as_[i]), info={'ev': 'mach', 'i': i})
    # rows come out in time order
    times = [dt.time for dt in datas if dt is not None]
    ctx.check('rows_in_time_order', ctx.all([times[j] <= times[j + 1] for j in range(len(times) - 1)]))


def _cfg_fire(tier):
    out = []
    K = 12 if tier == 'quick' else 24
    plan = [('A', 100.0, dict(), 'none'), ('A', 100.0, dict(sight_in=-1.0), 'none'), ('B', 60.0, dict(), 'left'), ('B', 60.0, dict(), 'head30'),
            ('H', 60.0, dict(), 'none'),           # rated supersonic, launched subsonic (powder sensitivity): no Mach row at all
            ('A', 100.0, dict(look_deg=20.0), 'none')]      # inclined sight line (needs the C02 zero-finder fix to zero at a coarse step)
    if tier == 'thorough':
        plan += [('A', 100.0, dict(sight_in=0.0), 'none'), ('A', 100.0, dict(look_deg=-20.0), 'two'), ('B', 60.0, dict(look_deg=10.0), 'none'),
                 ('A', 30.0, dict(), 'none'), ('B', 20.0, dict(), 'none')]
    for (c, step, kw, wind) in plan:
        rmax = K * step / 2 * 0.95
        shards = 3 if tier == 'quick' else 8
        for i in range(shards):
            out.append({'carrier': c, 'step_ft': step, 'kw': kw, 'wind': wind, 'rlo': max(rmax * i / shards, step * 1.01), 'rhi': rmax * (i + 1) / shards})
    return out


@harness('C15.fire', 'C15', configs=_cfg_fire, functions=FUNCS, cost=12, engine_opts={'div_check': False, 'nl_axioms_in_feasibility': False},
         must_reach=['check:flagged_rows_match_crossings', 'check:zeros_accessor', 'zero_up_row', 'zero_down_row', 'mach_row'],
         bounds='carriers A (sight above / below bore, level and +20 deg sight line), B (Mach crossing; cross wind and a 30 mph head wind) with coarse steps, horizon K <= 12 / 24 steps; '
                'symbolic range R and record step S >= max step (cells of the (R, S) plane); the calculator has served another (supersonic) shot just before; the events-only request (record step 0) repeats the events',
         outside=['shots other than the carriers (the filter harness covers arbitrary point sequences)'])
def c15_fire(ctx, carrier, step_ft, kw, wind, rlo, rhi):
    p = pybc()
    U = p.Unit
    TF = p.TrajFlag
    calc, shot = carriers.make(carrier, step_ft, wind, **kw)
    R = ctx.real('range_ft', rlo, rhi)
    S = ctx.real('record_step_ft', step_ft, max(rhi, step_ft))
    # the calculator has just served ANOTHER shot (supersonic flat fire that ends supersonic; with and without extra data):
    # the events of this shot are found from this shot's trajectory alone
    _, other = carriers.make('A', step_ft, 'none')
    calc.fire(other, U.Foot(3 * step_ft), U.Foot(step_ft), True)
    calc.fire(other, U.Foot(2 * step_ft), U.Foot(step_ft))
    with carriers.spy_filter() as spy:
        res = calc.fire(shot, U.Foot(R), U.Foot(S), True)
    rows = res.trajectory
    ctx.check('integration_reaches_the_range', spy[-1]['p'].x + 1.06 * (step_ft / 2) >= R)
    look = shot.look_angle >> U.Radian
    T = math.tan(look)
    # crossings of the integration points the filter was fed (concrete doubles)
    d = [s['p'].y - s['p'].x * T for s in spy]
    mach = [s['v'].magnitude() / s['a'] for s in spy]
    up_at = down_at = None
    y0 = spy[0]['p'].y
    if y0 < 0:
        for i in range(1, len(spy)):
            if d[i] >= 0:
                up_at = i
                break
    start = 1 if y0 >= 0 else (up_at + 1 if up_at is not None else None)
    if start is not None:
        for i in range(start, len(spy)):
            if d[i] < 0:
                down_at = i
                break
    mach_at = [i for i in range(1, len(spy)) if mach[i - 1] > 1 >= mach[i]]
    # every spy point's flag word against the oracle
    ok = True
    for i, s in enumerate(spy):
        fl = s['flag']
        ok = ok and (bool(fl & TF.ZERO_UP) == (i == up_at)) and (bool(fl & TF.ZERO_DOWN) == (i == down_at)) and (bool(fl & TF.MACH) == (i in mach_at))
    ctx.check('flagged_rows_match_crossings', ok, info={'up_at': up_at, 'down_at': down_at, 'mach_at': mach_at, 'points': len(spy)})
    # the returned rows carry exactly these events, once each, in time order
    n_up = sum(1 for r in rows if r.flag & TF.ZERO_UP)
    n_down = sum(1 for r in rows if r.flag & TF.ZERO_DOWN)
    n_mach = sum(1 for r in rows if r.flag & TF.MACH)
    ctx.check('each_event_once', n_up == (1 if up_at is not None else 0) and n_down == (1 if down_at is not None else 0) and n_mach == len(mach_at),
              info={'n_up': n_up, 'n_down': n_down, 'n_mach': n_mach})
    if n_up:
        ctx.reach('zero_up_row')
    if n_down:
        ctx.reach('zero_down_row')
    if n_mach:
        ctx.reach('mach_row')
    t = [r.time for r in rows]
    ctx.check('rows_in_time_order', ctx.all([t[j] <= t[j + 1] for j in range(len(t) - 1)]))
    for r in rows:
        if r.flag & TF.ZERO:
            i = up_at if r.flag & TF.ZERO_UP else down_at
            jump = abs(d[i] - d[i - 1])
            ctx.check('zero_row_within_one_step', ctx.abs(r.target_drop >> U.Foot) <= jump * 1.0000001 + 1e-9, info={'i': i})
        if r.flag & TF.MACH:
            i = [j for j in mach_at][0] if len(mach_at) == 1 else None
            if i is not None:
                ctx.check('mach_row_within_one_step', (r.mach <= mach[i - 1] + 1e-12) & (r.mach >= mach[i] - 1e-12))
    # the events-only request (no range step, no time step, extra data) through the engine's own entry point: exactly the event rows
    ev_rows = calc._calc.trajectory(shot, U.Foot(R), U.Foot(0.0), True)
    # (the two requests overshoot the range by different amounts: only events that happen within the requested range are compared;
    #  an event is 'within' when the integration point that carries it starts at or before the range)
    eps = 1e-6 * (1 + R)

    def want(limit):
        ins = [i for i in ([up_at] if up_at is not None else []) + ([down_at] if down_at is not None else []) + mach_at if spy[i]['p'].x <= limit]
        return (sum(1 for i in ins if i == up_at), sum(1 for i in ins if i == down_at), sum(1 for i in ins if i in mach_at))

    def seen(limit):
        ev = [r for r in ev_rows if (r.flag & (TF.ZERO | TF.MACH)) and (r.distance >> U.Foot) <= limit]
        return (sum(1 for r in ev if r.flag & TF.ZERO_UP), sum(1 for r in ev if r.flag & TF.ZERO_DOWN), sum(1 for r in ev if r.flag & TF.MACH))
    lo_w, hi_w, lo_s, hi_s = want(R - eps), want(R + eps), seen(R - eps), seen(R + eps)
    ctx.check('each_event_once', all(hi_s[k] >= lo_w[k] and lo_s[k] <= hi_w[k] for k in range(3)),
              info={'request': 'events only (record step 0)', 'rows': len(ev_rows), 'want_within_range': lo_w, 'seen_within_range': hi_s})
    # accessor
    try:
        z = res.zeros()
        ctx.check('zeros_accessor', [id(r) for r in z] == [id(r) for r in rows if r.flag & TF.ZERO] and len(z) >= 1)
    except ArithmeticError:
        ctx.check('zeros_accessor', n_up + n_down == 0)
