"""C11 - what is recorded never changes what is computed.

Pattern P with a canonical form: on carriers (concrete physics), for SYMBOLIC range R, record step S (and time step), plain and extra:
 1. the integration points the filter is fed (pass-through spy, concrete doubles) are a bit-identical prefix of ONE reference sequence per
    carrier - the integration never reads the request except through the loop bound;
 2. every recorded range row at distance d (a term in R, S) is interp(d): the linear interpolation between the two consecutive reference
    points that bracket d - a function of d alone, so two requests that share a distance report the same row there;
    rows recorded for time steps or events ARE reference points;
 3. extra-data output = the plain rows (same terms) + rows carrying an event bit.
"""
from symx.runner import harness
from harness.common import pybc
from harness import carriers

FUNCS = ['py_ballisticcalc.trajectory_calc._trajectory_calc.TrajectoryCalc._integrate',
         'py_ballisticcalc.trajectory_calc._trajectory_calc._TrajectoryDataFilter.should_record',
         'py_ballisticcalc.trajectory_calc._trajectory_calc.TrajectoryCalc.trajectory', 'py_ballisticcalc.interface.Calculator.fire']

_REF = {}


def _reference(key, mk, rng):
    """the carrier's integration points for a long concrete request (cached per process)"""
    if key not in _REF:
        p = pybc()
        calc, shot = mk()
        with carriers.spy_filter() as spy:
            calc.fire(shot, p.Unit.Foot(rng), p.Unit.Foot(rng), False)
        _REF[key] = [(s['t'], tuple(s['p']), tuple(s['v']), s['a']) for s in spy]
    return _REF[key]


def _cfg(tier):
    out = []
    K = 12 if tier == 'quick' else 18       # (24 ran past the two-hour unit budget: the cells of the (range, step) plane grow with K^2 and the rows per cell with K)
    plan = [('A', 100.0, dict(), 'two'), ('B', 60.0, dict(), 'left'), ('C', 100.0, dict(relative_deg=30.0), 'tail')]
    if tier == 'thorough':
        plan += [('A', 100.0, dict(look_deg=20.0), 'head'), ('A', 0.5, dict(), 'none')]
    for (c, step, kw, wind) in plan:
        rmax = K * step / 2 * 0.95
        shards = 4 if tier == 'quick' else 8
        for i in range(shards):
            rlo, rhi = max(rmax * i / shards, step * 1.01), rmax * (i + 1) / shards
            if rhi <= rlo:
                continue
            out.append({'carrier': c, 'step_ft': step, 'kw': kw, 'wind': wind, 'rlo': rlo, 'rhi': rhi, 'mode': 'range', 'rmax': rmax})
            if i % 2 == 0:
                out.append({'carrier': c, 'step_ft': step, 'kw': kw, 'wind': wind, 'rlo': rlo, 'rhi': rhi, 'mode': 'time', 'rmax': rmax})
            if i % 2 == 1 or shards < 3:
                # record steps FINER than the integration step (concrete fractions of it; the range stays symbolic)
                out.append({'carrier': c, 'step_ft': step, 'kw': kw, 'wind': wind, 'rlo': rlo, 'rhi': rhi, 'mode': 'fine', 'rmax': rmax,
                            'fine': [0.5, 0.4, 0.13][i % 3]})
    return out


@harness('C11.fire', 'C11', configs=_cfg, functions=FUNCS, cost=25, engine_opts={'div_check': False, 'nl_axioms_in_feasibility': False},
         must_reach=['check:integration_is_request_independent', 'check:range_row_is_interpolation_at_its_distance',
                     'check:extra_rows_are_plain_rows_plus_events', 'check:time_and_event_rows_are_integration_points'],
         bounds='carriers A (two wind segments), B (cross wind), C (30 deg, tail wind) [thorough: + A with a 20 deg look angle and head wind / default 0.5 ft step] with '
                'horizon K <= 12 (quick) / 18 (thorough) integration steps; symbolic range and record step (plain and extra in the same cell), symbolic time step, and record steps FINER than the integration step (0.5, 0.4, 0.13 of it, concrete) with symbolic range',
         assumptions=['the physics runs in true doubles; the record interpolation is compared over the reals (identical terms => equal to rounding of the one interpolation)'],
         outside=['shots other than the carriers: follows from C03.filter (a row is the interpolation at the multiple whatever the filter state) and C01.step (the step does not read the filter)'])
def c11_fire(ctx, carrier, step_ft, kw, wind, rlo, rhi, mode, rmax, fine=None):
    p = pybc()
    U = p.Unit
    TF = p.TrajFlag
    mk = lambda: carriers.make(carrier, step_ft, wind, **kw)
    ref = _reference((carrier, step_ft, wind, repr(sorted(kw.items()))), mk, rmax + 4 * step_ft)
    calc, shot = mk()
    R = ctx.real('range_ft', rlo, rhi)
    if mode == 'range':
        S = ctx.real('record_step_ft', step_ft, max(rhi, step_ft))
        tau = 0.0
    elif mode == 'fine':
        S = float(step_ft * fine)
        tau = 0.0
    else:
        # several recording distances inside the range, so that rows recorded by the clock fall BETWEEN rows recorded by distance
        S = float(max(rhi / 3.0, step_ft))
        tau = ctx.real('time_step', 1e-4, 0.5)
    runs = {}
    results = {}
    for extra in (False, True):
        with carriers.spy_filter() as spy:
            res = calc.fire(shot, U.Foot(R), U.Foot(S), extra, tau)
        runs[extra] = (res.trajectory, list(spy))
        results[extra] = res
    for extra, (rows, spy) in runs.items():
        # 1. request independence of the computation
        same = len(spy) <= len(ref) and all((s['t'], tuple(s['p']), tuple(s['v']), s['a']) == ref[i] for i, s in enumerate(spy))
        ctx.check('integration_is_request_independent', same, info={'extra': extra, 'points': len(spy)})
        # 2. what was recorded, point by point
        for i, s in enumerate(spy):
            data = s['data']
            if data is None:
                continue
            is_point = data.position is s['p']
            if is_point:
                ctx.check('time_and_event_rows_are_integration_points', data.time == ref[i][0] and tuple(data.velocity) == ref[i][2])
                continue
            # interpolated range row: bracketing reference points i-1, i
            d = data.position.x
            (t0, p0, v0, a0), (t1, p1, v1, a1) = ref[i - 1], ref[i]
            ctx.check('bracketed', (d >= p0[0]) & (d <= p1[0]), info={'i': i})
            r = (d - p0[0]) / (p1[0] - p0[0])
            ctx.check_eq('range_row_is_interpolation_at_its_distance', data.time, t0 + (t1 - t0) * r, rel=1e-12, abs=1e-12, info={'f': 't'})
            for ax in (1, 2):
                ctx.check_eq('range_row_is_interpolation_at_its_distance', data.position[ax], p0[ax] + (p1[ax] - p0[ax]) * r, rel=1e-12, abs=1e-12, info={'f': 'p%d' % ax})
            for ax in (0, 1, 2):
                ctx.check_eq('range_row_is_interpolation_at_its_distance', data.velocity[ax], v0[ax] + (v1[ax] - v0[ax]) * r, rel=1e-12, abs=1e-9, info={'f': 'v%d' % ax})
            ctx.check_eq('range_row_is_interpolation_at_its_distance', data.mach, a0 + (a1 - a0) * r, rel=1e-12, abs=1e-9, info={'f': 'a'})
        # rows are built from exactly the recorded data, in order
        recorded = [s['data'] for s in spy if s['data'] is not None]
        ok = len(rows) >= len(recorded)
        ctx.check('rows_are_the_recorded_data', ok and all(ctx.same_term(rows[j].time, recorded[j].time) for j in range(len(recorded))))
        # nothing else is returned - except the documented padding row (flag NONE) when fewer than two rows were recorded
        ctx.check('no_rows_besides_the_recorded_ones', len(rows) == len(recorded) or (len(recorded) < 2 and len(rows) == 2 and rows[-1].flag == TF.NONE),
                  info={'rows': len(rows), 'recorded': len(recorded)})
    # 2b. asking for rows by the clock as well only ADDS rows: the rows recorded by distance are those of the request without a time step
    if mode == 'time':
        base = calc.fire(shot, U.Foot(R), U.Foot(S), False, 0.0).trajectory
        base = [r for r in base if r.flag & TF.RANGE]
        timed = list(runs[False][0])
        # every row of the plain request occurs, in order, among the rows of the request with a time step (same distance, time, height terms)
        j, missing = 0, []
        for a in base:
            while j < len(timed) and not (ctx.same_term(a.distance.raw_value, timed[j].distance.raw_value) and ctx.same_term(a.time, timed[j].time)
                                          and ctx.same_term(a.height.raw_value, timed[j].height.raw_value)):
                j += 1
            if j == len(timed):
                missing.append(a.distance.raw_value)
                break
            j += 1
        ctx.check('time_step_only_adds_rows', not missing, info={'rows_without_time_step': len(base), 'rows_with_time_step': len(timed)})
    # 3. extra = plain + events
    plain, ext = runs[False][0], runs[True][0]
    ext_range = [r for r in ext if r.flag & TF.RANGE]
    others = [r for r in ext if not (r.flag & TF.RANGE)]
    n = min(len(plain), len(ext_range))
    ok = len(plain) == len(ext_range) or (len(plain) == len(ext_range) + 1 and plain[-1].flag == TF.NONE)
    ctx.check('extra_rows_are_plain_rows_plus_events', ok, info={'plain': len(plain), 'extra_range': len(ext_range)})
    for j in range(n):
        a, b = plain[j], ext_range[j]
        ctx.check('extra_rows_are_plain_rows_plus_events', ctx.same_term(a.time, b.time) and ctx.same_term(a.distance.raw_value, b.distance.raw_value)
                  and ctx.same_term(a.height.raw_value, b.height.raw_value) and ctx.same_term(a.windage.raw_value, b.windage.raw_value), info={'row': j})
    ctx.check('other_extra_rows_are_events', all(bool(r.flag & (TF.ZERO | TF.MACH)) or r is ext[-1] for r in others))
    # ... also when the row is looked up through the result accessor (with the row's own distance quantity: no conversion rounding)
    for j in range(n):
        a = plain[j]
        if a.flag == TF.NONE:
            continue
        for DU in (U.Foot,):
            d = a.distance
            try:
                ra, rb = results[False].get_at_distance(d), results[True].get_at_distance(d)
                # (a range row may coincide with an event row at exactly its distance: then the two are the same state, equal to rounding)
                ctx.check_eq('row_at_a_distance_is_the_same_through_the_accessor', ra.time, a.time, rel=1e-9, abs=1e-12, info={'row': j, 'result': 'plain'})
                ctx.check_eq('row_at_a_distance_is_the_same_through_the_accessor', rb.time, a.time, rel=1e-9, abs=1e-12, info={'row': j, 'result': 'extra'})
            except ArithmeticError:
                ctx.check('row_at_a_distance_is_the_same_through_the_accessor', False, info={'row': j, 'unit': str(DU), 'raised': True})


def _cfg_acc(tier):
    from harness.common import DIST_UNITS
    units = ['Yard', 'Meter', 'Foot'] if tier == 'quick' else DIST_UNITS[:9]
    return [{'n': n, 'unit': u} for n in ((2, 3) if tier == 'quick' else (2, 3, 4)) for u in units]


@harness('C11.accessor', 'C11', configs=_cfg_acc, cost=3,
         functions=['py_ballisticcalc.trajectory_data._trajectory_data.HitResult.get_at_distance', 'py_ballisticcalc.trajectory_data._trajectory_data.HitResult.index_at_distance'],
         must_reach=['check:richer_result_gives_the_same_row_at_a_distance'],
         bounds='a plain result of N = 2..3 (quick) / 2..4 (thorough) symbolic range rows and the richer result over the same rows plus ONE event row (zero crossing or Mach, symbolic distance '
                'strictly between two range rows, arbitrarily close to the next one): get_at_distance / index_at_distance with the distance of each range row, given in each unit, '
                'return that range row from both results')
def c11_accessor(ctx, n, unit):
    from harness.common import mkrow
    p = pybc()
    U = p.Unit
    DU = getattr(U, unit)
    d = []
    for i in range(n):
        x = ctx.real(f'd{i}', 0, 1e5)
        if i:
            ctx.assume(x > d[-1])
        d.append(x)
    # range rows whose distance quantity carries the unit `unit` (what fire() returns under that preferred unit)
    plain = [p.TrajectoryData(*[(DU(f) if k == 1 else f) for k, f in enumerate(mkrow(p, time=float(2 * i), dist_ft=0.0, flag=int(p.TrajFlag.RANGE)))]) for i in range(n)]
    for i, r in enumerate(plain):
        r.distance._value = DU(0.0)._value * 0 + p.Distance.Foot(d[i])._value
    k = ctx.choice('event_before_row', n - 1) + 1
    e = ctx.real('event_distance_ft', 0, 1e5)
    ctx.assume((e > d[k - 1]) & (e < d[k]))
    ev = p.TrajectoryData(*[(DU(f) if j == 1 else f) for j, f in enumerate(mkrow(p, time=float(2 * k - 1), dist_ft=0.0, flag=int(p.TrajFlag.ZERO_UP)))])
    ev.distance._value = p.Distance.Foot(e)._value
    rich = plain[:k] + [ev] + plain[k:]
    hp, hr = p.HitResult(None, plain, False), p.HitResult(None, rich, True)
    for i in range(n):
        q = plain[i].distance
        for (name, res, rows) in (('plain', hp, plain), ('extra', hr, rich)):
            try:
                got = res.get_at_distance(q)
                idx = res.index_at_distance(q)
                ctx.check('richer_result_gives_the_same_row_at_a_distance', got is plain[i] and rows[idx] is plain[i], info={'row': i, 'result': name, 'event_before_row': k})
            except ArithmeticError:
                ctx.check('richer_result_gives_the_same_row_at_a_distance', False, info={'row': i, 'result': name, 'raised': True})
