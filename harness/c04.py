"""C04 - every call terminates, and an incomplete trajectory is reported truthfully.

reason : pattern I (one real _integrate iteration from an arbitrary state, symbolic limits): RangeError is raised iff the post-step state
         violates a limit; the reason follows the precedence velocity > drop > altitude and the last row really violates it; the
         row is the post-step state; last_distance is the last row's distance.
prefix : pattern P (carriers, concrete physics, SYMBOLIC limits): the limit thresholds partition into cells (which step trips which
         limit); on every cell the rows before the last are identical to those of the same shot without limits and respect all limits.
"""
from symx.runner import harness
from symx.stubs import symmath as M
from harness.common import pybc
from harness.step import StepWorld
from harness import carriers

FUNCS = ['py_ballisticcalc.trajectory_calc._trajectory_calc.TrajectoryCalc._integrate',
         'py_ballisticcalc.exceptions.exceptions.RangeError.__init__', 'py_ballisticcalc.interface_config.create_interface_config']


def _cfg_reason(tier):
    return [{'shard': i} for i in range(8)]


@harness('C04.reason', 'C04', configs=_cfg_reason, functions=FUNCS, cost=10, allow_cut=['unwind'],
         engine_opts={'div_check': False, 'nl_axioms_in_feasibility': False},
         must_reach=['check:raised_iff_a_limit_is_violated', 'check:reason_is_truthful_and_ordered', 'check:last_distance_is_last_row',
                     'velocity', 'drop', 'altitude', 'no_error'],
         bounds='ONE real iteration of _integrate from an arbitrary state with SYMBOLIC limits (minimum velocity, maximum drop, minimum altitude) and '
                'symbolic station altitude; unwind bound 1',
         stubs=['atmosphere / drag / wind = arbitrary recorded answers (see harness/step.py)'],
         outside=['termination of the whole loop for all inputs (liveness over an unbounded loop): only per-step progress (dt > 0, C01.step) and bounded carrier horizons'])
def c04_reason(ctx, shard=0):
    w = StepWorld(ctx, limits='symbolic')
    p = w.p
    U = p.Unit
    R = ctx.real('max_range', 0, 1e6)
    ctx.assume((w.v0 >= w.vmin) if shard & 1 else (w.v0 < w.vmin))
    ctx.assume((w.alt0 >= w.altmin) if shard & 2 else (w.alt0 < w.altmin))
    ctx.assume((w.sh >= 0) if shard & 4 else (w.sh < 0))
    kind, res = w.run(R)
    ctx.check('one_row_built', len(w.row_args) == 1)
    (_t, pos, vel, speed, _a) = w.row_args[0][:5]
    too_slow = speed < w.vmin
    too_low = pos.y < w.drop
    below = (w.alt0 + pos.y) < w.altmin
    raised = kind == 'range_error'
    ctx.check('raised_iff_a_limit_is_violated', raised == (too_slow | too_low | below))
    if not raised:
        ctx.reach('no_error')
        ctx.check('returned_rows_respect_limits', (~too_slow if not isinstance(too_slow, bool) else not too_slow))
        return
    e = res
    RE = p.RangeError
    ctx.check('reason_is_one_of_three', e.reason in (RE.MinimumVelocityReached, RE.MaximumDropReached, RE.MinimumAltitudeReached))
    if e.reason == RE.MinimumVelocityReached:
        ctx.reach('velocity')
        ctx.check('reason_is_truthful_and_ordered', too_slow)
    elif e.reason == RE.MaximumDropReached:
        ctx.reach('drop')
        ctx.check('reason_is_truthful_and_ordered', ctx.all([too_low, (~too_slow if not isinstance(too_slow, bool) else not too_slow)]))
    else:
        ctx.reach('altitude')
        ctx.check('reason_is_truthful_and_ordered', ctx.all([below, (~too_slow if not isinstance(too_slow, bool) else not too_slow),
                                                             (~too_low if not isinstance(too_low, bool) else not too_low)]))
    last = e.incomplete_trajectory[-1]
    ctx.check('last_distance_is_last_row', e.last_distance is last.distance)
    # the last row is the violating (post-step) state
    ctx.check_eq('last_row_is_post_step_state', last.height >> U.Foot, pos.y)
    ctx.check_eq('last_row_is_post_step_state', last.velocity >> U.FPS, speed, info={'col': 'velocity'})
    ctx.check_eq('last_row_is_post_step_state', last.distance >> U.Foot, pos.x, info={'col': 'distance'})
    ctx.check('reason_in_message', e.reason in str(e))


def _cfg_prefix(tier):
    K = 12 if tier == 'quick' else 24
    out = []
    plan = [('C', 200.0, dict(relative_deg=75.0), 0.0, False), ('D', 20.0, dict(relative_deg=10.0), -1300.0, False),
            ('C', 200.0, dict(relative_deg=-20.0), 0.0, True), ('C', 200.0, dict(relative_deg=95.0), 0.0, False)]      # 95 deg: the projectile moves BACKWARDS (last row is not the farthest)
    if tier == 'thorough':
        plan += [('C', 200.0, dict(relative_deg=90.0), 0.0, False), ('D', 20.0, dict(relative_deg=45.0), 5000.0, True),
                 ('A', 100.0, dict(), 0.0, True), ('D', 20.0, dict(relative_deg=0.0), 0.0, False)]
    for (c, step, kw, alt, extra) in plan:
        for which in ('velocity', 'drop', 'altitude', 'all'):
            out.append({'carrier': c, 'step_ft': step, 'kw': kw, 'altitude_ft': alt, 'extra': extra, 'which': which, 'K': K})
    # inclined SIGHT lines (the limits are about the projectile's height, not about its offset from the sight line)
    for (c, step, kw, alt, extra) in [('A', 100.0, dict(look_deg=12.0), 0.0, False), ('C', 200.0, dict(look_deg=-15.0, relative_deg=5.0), 0.0, True)]:
        for which in ('drop', 'all'):
            out.append({'carrier': c, 'step_ft': step, 'kw': kw, 'altitude_ft': alt, 'extra': extra, 'which': which, 'K': K})
    # no limit in reach, SYMBOLIC range: the call returns a trajectory that reaches the range (winds that stretch / shrink the ground advance per step)
    for (c, step, wind) in [('A', 2.0, 'tail30'), ('D', 6.0, 'tail30'), ('A', 100.0, 'head')] + ([('B', 60.0, 'tail30'), ('A', 0.5, 'tail30')] if tier == 'thorough' else []):
        rmax = K * step / 2 * 0.9
        for i in range(2 if tier == 'quick' else 4):
            n = 2 if tier == 'quick' else 4
            out.append({'carrier': c, 'step_ft': step, 'kw': {}, 'altitude_ft': 0.0, 'extra': bool(i % 2), 'which': 'none', 'K': K, 'wind': wind,
                        'rlo': max(rmax * i / n, step * 1.01), 'rhi': rmax * (i + 1) / n})
    return out


@harness('C04.prefix', 'C04', configs=_cfg_prefix, functions=FUNCS, cost=15, engine_opts={'div_check': False, 'nl_axioms_in_feasibility': False},
         must_reach=['check:prefix_identical_to_unlimited_run', 'check:earlier_rows_respect_limits', 'check:returned_trajectory_reaches_the_range', 'tripped', 'completed'],
         allow_cut=['horizon'],
         bounds='carriers C (75 deg and -20 deg launch), D (300 fps at -1300 ft) [thorough: + vertical launch, D at 5000 ft, A] with coarse integration steps; '
                'horizon K <= 12 (quick) / 24 (thorough) integration steps; one, or all three, limits symbolic (others disabled); plain and extra-data; inclined sight lines (A 12 deg, C -15 deg); '
                'no limit in reach with SYMBOLIC range under 30 mph tail / head winds: the returned trajectory reaches the range',
         assumptions=['interpolated rows: speed may undershoot the limit by the chord error of linear interpolation; tolerance 1e-3 relative on the velocity limit for rows before the last'],
         outside=['shots not in the carrier list (covered per step by C04.reason)'])
def c04_prefix(ctx, carrier, step_ft, kw, altitude_ft, extra, which, K, wind='none', rlo=None, rhi=None):
    p = pybc()
    U = p.Unit
    big = 1e12
    vmin = ctx.real('min_velocity', 0, 4000) if which in ('velocity', 'all') else -1.0
    drop = ctx.real('max_drop', -5000, 100) if which in ('drop', 'all') else -big
    altmin = ctx.real('min_altitude', -3000, 8000) if which in ('altitude', 'all') else -big
    rng = K * step_ft / 2 * 0.9
    rec = step_ft * 1.5
    if which == 'none':
        rng = ctx.real('range_ft', rlo, rhi)
        rec = float(step_ft)
        vmin = 0.0
    calc, shot = carriers.make(carrier, step_ft, wind, altitude_ft=altitude_ft,
                               config={'cMinimumVelocity': vmin, 'cMaximumDrop': drop, 'cMinimumAltitude': altmin}, **kw)
    free, fshot = carriers.make(carrier, step_ft, wind, altitude_ft=altitude_ft,
                                config={'cMinimumVelocity': -1.0, 'cMaximumDrop': -big, 'cMinimumAltitude': -big}, **kw)
    import py_ballisticcalc.trajectory_calc._trajectory_calc as tc
    steps = [0]
    orig = tc.TrajectoryCalc.drag_by_mach

    def counting(self, m):
        steps[0] += 1
        if steps[0] > 4 * K:
            ctx.cut('horizon')
        return orig(self, m)
    tc.TrajectoryCalc.drag_by_mach = counting
    try:
        try:
            rows = calc.fire(shot, U.Foot(rng), U.Foot(rec), extra).trajectory
            err = None
        except p.RangeError as e:
            rows, err = e.incomplete_trajectory, e
    finally:
        tc.TrajectoryCalc.drag_by_mach = orig
    ref = None
    if kw.get('relative_deg', 0.0) <= 90.0:
        try:
            ref = free.fire(fshot, U.Foot(rng), U.Foot(rec), extra).trajectory
        except p.RangeError as e:      # cannot happen with the limits disabled
            ref = None
    backward = kw.get('relative_deg', 0.0) > 90.0
    if not backward:
        ctx.check('unlimited_run_completes', ref is not None)
    if ref is None:
        ref = rows          # a projectile that moves backwards never completes without limits: no reference run
    if err is None:
        ctx.reach('completed')
        ctx.check('complete_run_identical', len(rows) == len(ref) and all(_same_row(a, b) for a, b in zip(rows, ref)))
        # ... and it reaches the requested range: the last row is the last multiple of the record step within the range (or one beyond it)
        ctx.check('returned_trajectory_reaches_the_range', (rows[-1].distance >> U.Foot) + rec > rng, info={'rows': len(rows)})
        body = rows[1:]
    else:
        ctx.reach('tripped')
        pre = rows[:-1]
        ctx.check('prefix_identical_to_unlimited_run', len(pre) <= len(ref) and all(_same_row(a, b) for a, b in zip(pre, ref)),
                  info={'rows': len(rows)})
        ctx.check('last_distance_is_last_row', err.last_distance is rows[-1].distance)
        last = rows[-1]
        lv, ly = last.velocity >> U.FPS, last.height >> U.Foot
        RE = p.RangeError
        # (the row stores fps via m/s and feet via inches: one rounding each way, hence the 1e-9 slack at the boundary)
        truthful = {RE.MinimumVelocityReached: lv <= vmin + 1e-9 * (1 + abs(lv)), RE.MaximumDropReached: ly <= drop + 1e-9 * (1 + abs(ly)),
                    RE.MinimumAltitudeReached: altitude_ft + ly <= altmin + 1e-9 * (1 + abs(ly) + abs(altitude_ft))}.get(err.reason, False)
        ctx.check('last_row_violates_the_stated_limit', truthful, info={'reason': err.reason})
        body = pre[1:]
    a0 = altitude_ft
    for k, r in enumerate(body):
        v, y = r.velocity >> U.FPS, r.height >> U.Foot
        ctx.check('earlier_rows_respect_limits', ctx.all([v * (1 + 1e-3) >= vmin, y >= drop, a0 + y >= altmin]), info={'row': k + 1, 'flag': r.flag})


def _same_row(a, b):
    """bit-identical rows (quantities by raw value)"""
    for x, y in zip(a, b):
        xv = getattr(x, 'raw_value', x)
        yv = getattr(y, 'raw_value', y)
        if xv != yv:
            return False
    return True


def _cfg_history(tier):
    out = []
    for prior in ('failed_zero_out_of_reach', 'failed_zero_iterations', 'good_zero', 'failed_fire'):
        for (lo, hi) in ((25.0, 110.0), (110.0, 230.0)):
            out.append({'prior': prior, 'rlo': lo, 'rhi': hi})
    return out


@harness('C04.history', 'C04', configs=_cfg_history, functions=FUNCS, cost=6, engine_opts={'div_check': False, 'nl_axioms_in_feasibility': False},
         must_reach=['check:limits_in_force_are_the_configured_ones', 'tripped', 'completed'],
         bounds='carrier D (300 fps, level, 20 ft steps) on a calculator configured with a drop limit of -4 ft and a minimum altitude above the default, AFTER an earlier request on the same '
                'calculator that failed (zeroing at an unreachable distance / zeroing that runs out of iterations / a fire cut short) or succeeded: symbolic range in [25, 230] ft; '
                'the outcome (rows, or the reason and the partial rows) is that of a fresh calculator with the same configuration, and a cut-short result names a limit its last row violates',
         outside=['shots not in the carrier list'])
def c04_history(ctx, prior, rlo, rhi):
    p = pybc()
    U = p.Unit
    cfg = {'cMaximumDrop': -4.0, 'cMinimumAltitude': -40.0, 'cMinimumVelocity': 60.0}
    if prior == 'failed_zero_iterations':
        cfg['cMaxIterations'] = 1
    used, shot = carriers.make('D', 20.0, 'none', config=cfg)
    fresh, fshot = carriers.make('D', 20.0, 'none', config=cfg)
    R = ctx.real('range_ft', rlo, rhi)
    outcome = 'none'
    try:
        if prior == 'failed_zero_out_of_reach':
            used.set_weapon_zero(shot, U.Foot(900.0))
        elif prior == 'failed_zero_iterations':
            used.set_weapon_zero(shot, U.Foot(60.0))
        elif prior == 'good_zero':
            used.barrel_elevation_for_target(shot, U.Foot(60.0))
        else:
            used.fire(shot, U.Foot(900.0), U.Foot(100.0))
        outcome = 'returned'
    except (p.RangeError, p.ZeroFindingError) as e:
        outcome = type(e).__name__
    ctx.check('earlier_request_went_as_planned', (outcome == 'returned') == (prior == 'good_zero'), info={'prior': prior, 'outcome': outcome})

    def run(calc, sh):
        try:
            return calc.fire(sh, U.Foot(R), U.Foot(20.0)).trajectory, None
        except p.RangeError as e:
            return e.incomplete_trajectory, e
    rows, err = run(used, shot)
    ref, rerr = run(fresh, fshot)
    ctx.check('limits_in_force_are_the_configured_ones', (err is None) == (rerr is None) and (err is None or err.reason == rerr.reason), info={'prior': prior,
              'used': None if err is None else err.reason, 'fresh': None if rerr is None else rerr.reason})
    ctx.check('limits_in_force_are_the_configured_ones', len(rows) == len(ref) and all(_same_row(a, b) for a, b in zip(rows, ref)), info={'prior': prior, 'what': 'rows'})
    if err is None:
        ctx.reach('completed')
        body = rows[1:]
    else:
        ctx.reach('tripped')
        last = rows[-1]
        lv, ly = last.velocity >> U.FPS, last.height >> U.Foot
        RE = p.RangeError
        truthful = {RE.MinimumVelocityReached: lv <= 60.0 + 1e-9, RE.MaximumDropReached: ly <= -4.0 + 1e-9, RE.MinimumAltitudeReached: ly <= -40.0 + 1e-9}.get(err.reason, False)
        ctx.check('last_row_violates_the_stated_limit', truthful, info={'reason': err.reason, 'prior': prior})
        body = rows[1:-1]
    for k, r in enumerate(body):
        ctx.check('earlier_rows_respect_limits', (r.height >> U.Foot) >= -4.0 and (r.velocity >> U.FPS) * (1 + 1e-3) >= 60.0, info={'row': k + 1, 'prior': prior})
