"""C05 - each row's derived columns are the documented functions of its state.

Pattern U, loop-free: real create_trajectory_row / spin_drift / calc_stability_coefficient on symbolic arguments; transcendental
functions summarised (the oracle applies the same summaries to its own, independently written, arguments).
"""
from fractions import Fraction as F

from symx.runner import harness
from symx.stubs import symmath as M
from harness.common import pybc
from ref import si

FUNCS = ['py_ballisticcalc.trajectory_calc._trajectory_calc.create_trajectory_row',
         'py_ballisticcalc.trajectory_calc._trajectory_calc.get_correction',
         'py_ballisticcalc.trajectory_calc._trajectory_calc.calculate_energy',
         'py_ballisticcalc.trajectory_calc._trajectory_calc.calculate_ogw',
         'py_ballisticcalc.trajectory_calc._trajectory_calc.TrajectoryCalc.spin_drift',
         'py_ballisticcalc.trajectory_calc._trajectory_calc.TrajectoryCalc.calc_stability_coefficient']


def _tc():
    import py_ballisticcalc.trajectory_calc._trajectory_calc as tc
    return tc


def _cfg_row(tier):
    return [{'muzzle': m, 'prefs': pr} for m in (False, True) for pr in ('default', 'metric')]


@harness('C05.row', 'C05', configs=_cfg_row, functions=FUNCS, engine_opts={'div_check': False},
         must_reach=['check:mach', 'check:energy', 'check:ogw', 'check:target_drop', 'check:drop_adj', 'check:windage_adj',
                     'check:look_distance', 'check:angle', 'check:windage'],
         bounds='loop-free: all states (time, position, velocity vector, speed > 0, speed of sound > 0, spin drift, look angle in (-1.5,1.5) rad, '
                'weight); muzzle = position x exactly 0',
         stubs=['tan/cos/atan/atan2 summarised; oracle uses the same summaries on independently written arguments'],
         assumptions=['floats as reals; unit round trips of the columns (feet*12/12, fps/3.2808399*3.2808399) are exact over the reals',
                      'energy compared with 1/2 m v^2 under g0 = 9.80665/0.3048 ft/s^2 at 2e-4 relative (the code constant 450400 differs by 8.1e-5)'])
def c05_row(ctx, muzzle, prefs='default'):
    p, tc = pybc(), _tc()
    from harness.common import with_preferred
    with with_preferred():
        if prefs == 'metric':
            p.loadMetricUnits()        # the columns are physical quantities: the preferred units in force when the row is built must not matter
        return _c05_row(ctx, muzzle, p, tc)


def _c05_row(ctx, muzzle, p, tc):
    from py_ballisticcalc.vector import Vector
    t = ctx.real('time', 0, 1e3)
    x = 0.0 if muzzle else ctx.real('x', 1e-6, 1e6)
    y = ctx.real('y', -1e5, 1e5)
    z = ctx.real('z', -1e5, 1e5)
    vx, vy, vz = ctx.real('vx', -1e4, 1e4), ctx.real('vy', -1e4, 1e4), ctx.real('vz', -1e4, 1e4)
    v = ctx.real('speed', 1e-3, 1e4)
    a = ctx.real('speed_of_sound', 100, 2000)
    spin = ctx.real('spin_drift', -100, 100)
    look = ctx.real('look', -1.5, 1.5)
    w = ctx.real('weight_gr', 1, 1e4)
    dens = ctx.real('density_factor', 0, 2)
    drag = ctx.real('drag', 0, 10)
    row = tc.create_trajectory_row(t, Vector(x, y, z), Vector(vx, vy, vz), v, a, spin, look, dens, drag, w, 8)
    U = p.Unit
    ctx.check('time', ctx.same_term(row.time, t))
    ctx.check_eq('distance', row.distance >> U.Foot, x)
    ctx.check_eq('height', row.height >> U.Foot, y)
    ctx.check_eq('velocity', row.velocity >> U.FPS, v)
    ctx.check_eq('mach', row.mach, v / a)
    g0 = si.G0 / si.FOOT                                   # ft/s^2
    ke = F(1, 2) * (w / 7000) / g0 * v * v                 # ft*lbf
    ctx.check_eq('energy', row.energy >> U.FootPound, ke, rel=2e-4)
    ctx.check_eq('ogw', row.ogw >> U.Pound, w * w * v * v * v * F(15, 10 ** 13), rel=1e-9)
    tanl, cosl = M.tan(look), M.cos(look)
    ctx.check_eq('target_drop', row.target_drop >> U.Foot, (y - x * tanl) * cosl, rel=1e-12, abs=1e-12)
    ctx.check_eq('look_distance', row.look_distance >> U.Foot, x / cosl, rel=1e-12)
    wind = z + spin
    ctx.check_eq('windage', row.windage >> U.Foot, wind)
    if muzzle:
        ctx.check_eq('drop_adj', row.drop_adj >> U.Radian, 0)
        ctx.check_eq('windage_adj', row.windage_adj >> U.Radian, 0)
    else:
        ctx.check_eq('drop_adj', row.drop_adj >> U.Radian, M.atan(y / x) - look)
        ctx.check_eq('windage_adj', row.windage_adj >> U.Radian, M.atan(wind / x))
    ctx.check_eq('angle', row.angle >> U.Radian, M.atan2(vy, vx))
    ctx.check('flag', row.flag == 8)
    ctx.check_eq('density_factor_minus_one', row.density_factor, dens - 1)


def _cfg_spin(tier):
    return [{'case': c} for c in ('right', 'left', 'no_twist', 'no_length', 'no_diameter', 'vacuum', 'powder')]


@harness('C05.spin', 'C05', configs=_cfg_spin, functions=FUNCS + ['py_ballisticcalc.trajectory_calc._trajectory_calc.TrajectoryCalc._init_trajectory'], engine_opts={'div_check': False},
         must_reach=['check:spin_drift'],
         bounds='loop-free: the real _init_trajectory on a real shot, then spin_drift: all twists (right / left / none), lengths, diameters, weights, muzzle velocities (catalogue, or corrected for powder temperature with sensitivity on), temperatures, pressures (or the Vacuum atmosphere), times',
         stubs=['pow(., 1/3) and pow(., 1.83) summarised; the oracle applies the same summaries; sqrt/exp inside Atmo summarised (not part of the obligation)'])
def c05_spin(ctx, case):
    p, tc = pybc(), _tc()
    from py_ballisticcalc.interface_config import create_interface_config
    tw = ctx.real('twist_in', 1, 100)
    if case == 'left':
        tw = -tw
    if case == 'no_twist':
        tw = 0
    ln = 0 if case == 'no_length' else ctx.real('length_in', 0.1, 10)
    d = 0 if case == 'no_diameter' else ctx.real('diameter_in', 0.05, 5)
    w = ctx.real('weight_gr', 1, 1e4)
    mv = ctx.real('mv_fps', 100, 6000)
    tf = ctx.real('temp_f', -100, 150)
    pr = ctx.real('pressure_inhg', 10, 40)
    time = ctx.real('time', 0, 100)
    calc = tc.TrajectoryCalc(create_interface_config(None))
    # the per-shot constants are set by the real _init_trajectory from a real shot (whatever it chooses to precompute)
    U = p.Unit
    dm = p.DragModel(0.3, p.TableG7, U.Grain(w), U.Inch(d), U.Inch(ln))
    atmo = p.Vacuum(U.Foot(0.0), U.Fahrenheit(tf)) if case == 'vacuum' else p.Atmo(U.Foot(0.0), U.InHg(pr), U.Fahrenheit(tf), 0.0)
    ammo = p.Ammo(dm, U.FPS(mv))
    if case == 'powder':
        # powder sensitivity in force: the velocity the Miller formula sees is the LAUNCH velocity (what the first row reports), not the catalogue one
        mod = ctx.real('temp_modifier', -2, 2)
        pw = ctx.real('powder_c', -60, 60)
        ctx.assume(1 + mod * (pw - 15) / 15 > 0.05)
        ammo = p.Ammo(dm, U.FPS(mv), U.Celsius(15.0), mod, True)
        atmo = p.Atmo(U.Foot(0.0), U.InHg(pr), U.Fahrenheit(tf), 0.0, U.Celsius(pw))
        mv = mv * (1 + mod * (pw - 15) / 15)
    calc._init_trajectory(p.Shot(p.Weapon(U.Inch(2.0), U.Inch(tw)), ammo, atmo=atmo))
    got = calc.spin_drift(time)
    if case in ('no_twist', 'no_length', 'no_diameter', 'vacuum'):
        ctx.check_eq('spin_drift', got, 0)
        ctx.check_eq('stability', calc.stability_coefficient, 0)
        return
    T = ctx.abs(tw) / d
    L = ln / d
    sg = 30 * w / (T * T * d * d * d * L * (1 + L * L)) * M.pow(mv / 2800, 1.0 / 3.0) * ((tf + 460) / 519) * (29.92 / pr)
    ctx.check_eq('stability', calc.stability_coefficient, sg, rel=1e-9)
    sign = -1 if case == 'left' else 1
    want = sign * 1.25 * (sg + 1.2) * M.pow(time, 1.83) / 12
    ctx.check_eq('spin_drift', got, want, rel=1e-9, abs=1e-12)
    ctx.check('drift_sign_follows_twist', ctx.implies(time > 0, got * sign > 0))


@harness('C05.reuse', 'C05', functions=FUNCS + ['py_ballisticcalc.trajectory_calc._trajectory_calc.TrajectoryCalc._init_trajectory'],
         engine_opts={'div_check': False, 'pin_check': True},
         must_reach=['check:stability_is_for_the_current_shot'],
         bounds='the per-shot constants after _init_trajectory on a REUSED solver object: a first shot (symbolic atmosphere 1, dimensioned bullet) then a second shot '
                '(symbolic atmosphere 2; dimensioned or un-dimensioned bullet): stability coefficient, weight, twist, look angle are those of the second shot',
         stubs=['pow/sqrt/exp summarised'])
def c05_reuse(ctx):
    p, tc = pybc(), _tc()
    U = p.Unit
    from py_ballisticcalc.interface_config import create_interface_config
    t1, p1 = ctx.real('temp1_f', -40, 120), ctx.real('press1_inhg', 20, 32)
    t2, p2 = ctx.real('temp2_f', -40, 120), ctx.real('press2_inhg', 20, 32)
    dm_full = p.DragModel(0.3, p.TableG7, U.Grain(168.0), U.Inch(0.308), U.Inch(1.2))
    dm_bare = p.DragModel(0.3, p.TableG7)
    calc = tc.TrajectoryCalc(create_interface_config(None))

    def shot(dm, tf, pi_):
        return p.Shot(p.Weapon(U.Inch(2.0), U.Inch(11.0)), p.Ammo(dm, U.FPS(2700.0)), atmo=p.Atmo(U.Foot(0.0), U.InHg(pi_), U.Fahrenheit(tf), 0.0))
    for second in ('full', 'bare'):
        calc._init_trajectory(shot(dm_full, t1, p1))
        calc._init_trajectory(shot(dm_full if second == 'full' else dm_bare, t2, p2))
        if second == 'full':
            T = 11.0 / 0.308
            L = 1.2 / 0.308
            sg = 30 * 168.0 / (T * T * 0.308 ** 3 * L * (1 + L * L)) * M.pow(2700.0 / 2800, 1.0 / 3.0) * ((t2 + 460) / 519) * (29.92 / p2)
            ctx.check_eq('stability_is_for_the_current_shot', calc.stability_coefficient, sg, rel=1e-9, info={'second': second})
        else:
            ctx.check_eq('stability_is_for_the_current_shot', calc.stability_coefficient, 0, info={'second': second})
            ctx.check_eq('no_spin_drift_without_dimensions', calc.spin_drift(1.0), 0)


def _cfg_machcol(tier):
    return [{'n': n, 'vacuum': True} for n in ((1, 2, 3) if tier == 'quick' else (1, 2, 3, 4, 5))] + [{'n': 1, 'vacuum': False}]


@harness('C05.mach_column', 'C05', configs=_cfg_machcol, allow_cut=['unwind'], cost=4,
         functions=FUNCS + ['py_ballisticcalc.trajectory_calc._trajectory_calc.TrajectoryCalc._integrate'],
         engine_opts={'div_check': False, 'nl_axioms_in_feasibility': False},
         must_reach=['check:row_mach_is_speed_over_the_local_speed_of_sound'],
         bounds='N = 1..3 (quick) / 1..5 (thorough) real iterations of _integrate in a vacuum (density 0, any drag answer; step durations arbitrary as in C01.vacuum) and one iteration in air, '
                'from an arbitrary state: the atmosphere is asked once per step at alt0 + the current height, and the Mach column of the terminal row is its speed over the speed of sound '
                'answered for the step that produced it',
         stubs=['atmosphere / drag = arbitrary recorded answers (harness/step.py)', 'Vector.magnitude -> fresh symbol per call in the vacuum runs'])
def c05_mach_column(ctx, n, vacuum):
    import py_ballisticcalc.vector._vector as vec
    from harness.step import StepWorld
    w = StepWorld(ctx, limits='off', max_atmo_calls=n, vacuum=vacuum)
    ctx.assume((w.wx == 0) & (w.wz == 0))
    mags = []
    orig = vec.Vector.magnitude

    class _TooManySteps(Exception):
        pass

    def magnitude(self):
        if len(mags) >= 2 * n + 2:
            raise _TooManySteps()          # more steps than atmosphere answers: the loop ran on without asking
        r = ctx.real(f'air_speed{len(mags)}', 1.000001, 1e5) if (ctx.symbolic and vacuum) else orig(self)
        mags.append(r)
        return r
    vec.Vector.magnitude = magnitude
    try:
        R = ctx.real('max_range', 0, 1e6)
        try:
            kind, res = w.run(R, rec=1e9)
        except _TooManySteps:
            ctx.check('atmosphere_asked_once_per_step', False, info={'atmosphere_calls': len(w.atmo_calls), 'steps_so_far': len(mags) // 2})
            return
    finally:
        vec.Vector.magnitude = orig
    if kind != 'ok':
        return
    steps = len(mags) // 2
    ctx.check('atmosphere_asked_once_per_step', len(w.atmo_calls) == steps, info={'atmosphere_calls': len(w.atmo_calls), 'steps': steps})
    (_t, pos, vel, speed, a_used) = w.row_args[-1][:5]
    alt_k, _rho, a_k = w.atmo_calls[-1]
    ctx.check('row_mach_is_speed_over_the_local_speed_of_sound', ctx.same_term(a_used, a_k), info={'steps': steps})
    row = res[-1]
    ctx.check_eq('row_mach_is_speed_over_the_local_speed_of_sound', row.mach * a_k, speed, rel=1e-12, info={'steps': steps, 'what': 'column'})
    # the altitudes asked: alt0 + height of the state each step started from (the first one is the muzzle)
    ctx.check_eq('atmosphere_asked_at_the_current_altitude', w.atmo_calls[0][0], w.alt0 - w.cc * w.sh)
    if steps >= 2:
        ctx.check('atmosphere_asked_at_the_current_altitude', not ctx.same_term(w.atmo_calls[-1][0], w.atmo_calls[0][0]), info={'what': 'later steps ask at their own altitude'})


@harness('C05.mach_column_cut_short', 'C05', allow_cut=['unwind'], cost=4,
         functions=FUNCS + ['py_ballisticcalc.trajectory_calc._trajectory_calc.TrajectoryCalc._integrate'],
         engine_opts={'div_check': False, 'nl_axioms_in_feasibility': False},
         must_reach=['check:terminal_row_mach_is_speed_over_a_speed_of_sound_asked_at_the_projectiles_altitude', 'cut_short'],
         bounds='one real iteration of _integrate in air from an arbitrary state with symbolic limits, on the paths that END IN A RangeError: the Mach column of the terminal row of the '
                'partial trajectory is its speed over a speed of sound that the atmosphere answered for alt0 + the height of a state of this trajectory (up to two atmosphere look-ups allowed)',
         stubs=['atmosphere / drag = arbitrary recorded answers (harness/step.py)'])
def c05_mach_column_cut_short(ctx):
    from harness.step import StepWorld
    w = StepWorld(ctx, limits='symbolic', max_atmo_calls=2, vacuum=False)
    R = ctx.real('max_range', 0, 1e6)
    kind, res = w.run(R, rec=1e9)
    if kind != 'range_error':
        return
    ctx.reach('cut_short')
    rows = res.incomplete_trajectory
    (_t, pos, vel, speed, a_used) = w.row_args[-1][:5]
    ctx.check('terminal_row_mach_is_speed_over_a_speed_of_sound_asked_at_the_projectiles_altitude', any(ctx.same_term(a_used, a_k) for (_alt, _rho, a_k) in w.atmo_calls),
              info={'what': 'the speed of sound used is an answer of the atmosphere', 'calls': len(w.atmo_calls)})
    ctx.check_eq('terminal_row_mach_is_speed_over_a_speed_of_sound_asked_at_the_projectiles_altitude', rows[-1].mach * a_used, speed, rel=1e-12, info={'what': 'column'})
    # where the atmosphere was asked: at the muzzle state first; any further look-up at alt0 + the height of the terminal state
    ctx.check_eq('atmosphere_asked_at_the_current_altitude', w.atmo_calls[0][0], w.alt0 - w.cc * w.sh, info={'call': 0})
    # one look-up per integration step belongs to the loop (their altitudes are C05.mach_column's subject); a look-up BEYOND those - a
    # refresh for the terminal row - must be made at alt0 + the height of the terminal state
    steps = len(w.drag_calls)
    for k in range(max(steps, 1), len(w.atmo_calls)):
        ctx.check_eq('atmosphere_asked_at_the_current_altitude', w.atmo_calls[k][0], w.alt0 + pos.y, rel=1e-12, abs=1e-12, info={'call': k, 'steps': steps})
