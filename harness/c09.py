"""C09 - drag used by the solver is faithful to the drag table and the BC definition.

shipped : real calculate_curve (concrete, exactly what _init_trajectory stores) + real _calculate_by_curve_and_mach_list on a
          symbolic Mach number; oracle = exact rational Lagrange parabolas / chords through the tabulated points.
custom  : fully symbolic tables (n strictly ascending symbolic Mach nodes, symbolic CDs) through the same real functions.
bc      : real TrajectoryCalc.drag_by_mach after _init_trajectory with a symbolic BC.
tables  : ascending from Mach 0, >= 3 points, pinned digest, not aliased by make_data_points.
"""
import hashlib
import json
import os
from fractions import Fraction as F

from symx.runner import harness, VERIF
from harness.common import pybc

FUNCS = ['py_ballisticcalc.trajectory_calc._trajectory_calc.calculate_curve',
         'py_ballisticcalc.trajectory_calc._trajectory_calc._calculate_by_curve_and_mach_list',
         'py_ballisticcalc.trajectory_calc._trajectory_calc._get_only_mach_data',
         'py_ballisticcalc.trajectory_calc._trajectory_calc.TrajectoryCalc.drag_by_mach',
         'py_ballisticcalc.drag_model.make_data_points']
TABLES = ['TableG1', 'TableG7', 'TableG2', 'TableG5', 'TableG6', 'TableG8', 'TableGI', 'TableGS', 'TableRA4']


def _tc():
    import py_ballisticcalc.trajectory_calc._trajectory_calc as tc
    return tc


def _lagrange(pts, M):
    """exact parabola through three (x, y) points, evaluated at M (Fractions for concrete points)"""
    (x1, y1), (x2, y2), (x3, y3) = pts
    return (y1 * (M - x2) * (M - x3) / ((x1 - x2) * (x1 - x3))
            + y2 * (M - x1) * (M - x3) / ((x2 - x1) * (x2 - x3))
            + y3 * (M - x1) * (M - x2) / ((x3 - x1) * (x3 - x2)))


def _chord(p1, p2, M):
    (x1, y1), (x2, y2) = p1, p2
    return y1 + (y2 - y1) * (M - x1) / (x2 - x1)


class SpyList(list):
    """pass-through list that records the indices read (to observe which curve entry the search selected)"""

    def __init__(self, it):
        super().__init__(it)
        self.seen = []

    def __getitem__(self, i):
        self.seen.append(i)
        return list.__getitem__(self, i)


def _cfg_shipped(tier):
    out = []
    for t in TABLES:
        # split the Mach axis so that one table is several work units
        cuts = [0, 0.6, 0.85, 1.0, 1.2, 2.0, 10.0] if tier == 'quick' else [0, 0.3, 0.6, 0.75, 0.85, 0.925, 1.0, 1.1, 1.2, 1.5, 2.0, 3.0, 10.0]
        for lo, hi in zip(cuts, cuts[1:]):
            out.append({'table': t, 'lo': lo, 'hi': hi})
    return out


@harness('C09.shipped', 'C09', configs=_cfg_shipped, functions=FUNCS, cost=5,
         must_reach=['check:on_neighbour_parabola', 'check:tabulated_at_nodes', 'check:positive', 'check:within_5pct_of_linear', 'beyond_table'],
         bounds='9 shipped tables x every Mach in [0,10] (the axis is split into work units; within each the binary search is explored '
                'exhaustively: one path per reachable selection)',
         assumptions=['floats as reals; the curve coefficients are the doubles the real calculate_curve produced, compared with exact '
                      'rational parabolas at 1e-9 absolute'])
def c09_shipped(ctx, table, lo, hi):
    p, tc = pybc(), _tc()
    pts = tc.make_data_points(getattr(p, table)) if hasattr(tc, 'make_data_points') else __import__('py_ballisticcalc.drag_model', fromlist=['x']).make_data_points(getattr(p, table))
    curve = SpyList(tc.calculate_curve(pts))
    machs = tc._get_only_mach_data(pts)
    n = len(pts)
    X = [F(pt.Mach) for pt in pts]
    Y = [F(pt.CD) for pt in pts]
    M = ctx.real('mach', lo, hi)
    got = tc._calculate_by_curve_and_mach_list(machs, curve, M)
    m = curve.seen[-1]
    ctx.check('one_entry_read', len(curve.seen) == 1)
    # neighbours of the query: i with X[i] <= M <= X[i+1]; beyond the table: the last interval
    i = None
    for j in range(n - 1):
        if M <= X[j + 1]:
            i = j
            break
    if i is None:
        ctx.reach('beyond_table')
        ctx.check('last_three_points_beyond_table', m == n - 2)
        i = n - 2
        beyond = True
    else:
        beyond = False
    # the selected entry's three nodes include both neighbours (first interval: chord (0,1) allowed; m = 0 only there)
    ctx.check('selection_includes_neighbours', (m - 1 <= i and i + 1 <= m + 1 and 1 <= m <= n - 2) or (m == 0 and i == 0),
              info={'m': m, 'i': i})
    if m == 0:
        want = _chord((X[0], Y[0]), (X[1], Y[1]), M)
    else:
        want = _lagrange([(X[m - 1], Y[m - 1]), (X[m], Y[m]), (X[m + 1], Y[m + 1])], M)
    ctx.check_eq('on_neighbour_parabola', got, want, abs=1e-9, info={'m': m, 'i': i})
    # tabulated value at the nodes of the neighbouring interval
    for j in (i, i + 1):
        ctx.check('tabulated_at_nodes', ctx.implies(M == X[j], ctx.abs(got - Y[j]) <= 1e-9), info={'node': j})
    if not beyond:
        lin = _chord((X[i], Y[i]), (X[i + 1], Y[i + 1]), M)
        ctx.check('positive', got > 0, info={'i': i})
        ctx.check('within_5pct_of_linear', ctx.abs(got - lin) <= 0.05 * lin, info={'i': i, 'm': m})


def _cfg_custom(tier):
    ns = [3, 4, 5] if tier == 'quick' else [3, 4, 5, 6, 7]
    return [{'n': n} for n in ns]


def _sym_table(ctx, p, n):
    from py_ballisticcalc.drag_model import DragDataPoint
    xs, ys = [], []
    for i in range(n):
        x = ctx.real(f'mach{i}', 0, 100)
        if i:
            ctx.assume(x > xs[-1])
        xs.append(x)
        ys.append(ctx.real(f'cd{i}', 0, 10))
    return xs, ys, [DragDataPoint(xs[i], ys[i]) for i in range(n)]


@harness('C09.custom', 'C09', configs=_cfg_custom, functions=FUNCS, cost=8,
         must_reach=['check:custom_on_neighbour_parabola', 'check:custom_selection_includes_neighbours', 'first_interval', 'beyond_table'],
         engine_opts={'div_check': False},
         bounds='fully symbolic custom tables of n = 3..5 (quick) / 3..7 (thorough) strictly ascending Mach nodes in [0,100] and CDs in [0,10]; '
                'every Mach query in [0,200]; every path of the search',
         assumptions=['divisors in calculate_curve are non-zero (they are products of node differences; lemma C09.denominator)'])
def c09_custom(ctx, n):
    p, tc = pybc(), _tc()
    xs, ys, pts = _sym_table(ctx, p, n)
    # the same table given as dicts, with the keys in either insertion order, is the same table
    from py_ballisticcalc.drag_model import make_data_points
    for order in (('Mach', 'CD'), ('CD', 'Mach')):
        made = make_data_points([{order[0]: (xs[i] if order[0] == 'Mach' else ys[i]), order[1]: (xs[i] if order[1] == 'Mach' else ys[i])} for i in range(n)])
        ctx.check('dict_table_read_by_key', all(ctx.same_term(made[i].Mach, xs[i]) and ctx.same_term(made[i].CD, ys[i]) for i in range(n)), info={'order': order})
    curve = SpyList(tc.calculate_curve(pts))
    ctx.check('curve_length', len(curve) == n)
    machs = tc._get_only_mach_data(pts)
    M = ctx.real('mach', 0, 200)
    got = tc._calculate_by_curve_and_mach_list(machs, curve, M)
    m = curve.seen[-1]
    i = None
    for j in range(n - 1):
        if M <= xs[j + 1]:
            i = j
            break
    if i is None:
        ctx.reach('beyond_table')
        i = n - 2
        ctx.check('custom_last_three_beyond_table', m == n - 2 or n == 3 and m in (0, 1), info={'m': m})
    if i == 0:
        ctx.reach('first_interval')
    ctx.check('custom_selection_includes_neighbours', (m - 1 <= i and i + 1 <= m + 1 and 1 <= m <= n - 2) or (m == 0 and i == 0),
              info={'m': m, 'i': i, 'n': n})
    if m == 0:
        want = _chord((xs[0], ys[0]), (xs[1], ys[1]), M)
    elif 1 <= m <= n - 2:
        want = _lagrange([(xs[m - 1], ys[m - 1]), (xs[m], ys[m]), (xs[m + 1], ys[m + 1])], M)
    else:
        ctx.check('custom_selection_in_range', False, info={'m': m})
        return
    ctx.check_eq('custom_on_neighbour_parabola', got, want, info={'m': m, 'i': i, 'n': n})
    for j in (i, i + 1):
        ctx.check('custom_tabulated_at_nodes', ctx.implies(M == xs[j], got == ys[j]), info={'node': j})


@harness('C09.denominator', 'C09', functions=FUNCS, must_reach=['check:denominators_nonzero'],
         bounds='lemma for 3 strictly ascending reals: the divisors used by calculate_curve do not vanish')
def c09_denominator(ctx):
    x1 = ctx.real('x1', 0, 100)
    x2 = ctx.real('x2', 0, 100)
    x3 = ctx.real('x3', 0, 100)
    ctx.assume((x1 < x2) & (x2 < x3))
    den = (x3 * x3 - x1 * x1) * (x2 - x1) - (x2 * x2 - x1 * x1) * (x3 - x1)
    ctx.check('denominators_nonzero', (den != 0) & (x2 - x1 != 0) & (x3 - x2 != 0))


def _cfg_bc(tier):
    return [{'table': t} for t in (TABLES if tier == 'thorough' else ['TableG1', 'TableG7', 'TableRA4'])]


@harness('C09.bc', 'C09', configs=_cfg_bc, functions=FUNCS, must_reach=['check:retardation_constant', 'check:bc_scaling'],
         bounds='real _init_trajectory + drag_by_mach with symbolic BC in (0, 100] and symbolic Mach in [0,10] (binary search forks); '
                'constant compared with rho_std*pi/(8*144), rho_std = 0.076474 lb/ft^3, at 1e-5 relative')
def c09_bc(ctx, table):
    p, tc = pybc(), _tc()
    from py_ballisticcalc.interface_config import create_interface_config
    bc = ctx.real('bc', 1e-4, 100)
    M = ctx.real('mach', 0, 10)
    dm = p.DragModel(bc, getattr(p, table))
    shot = p.Shot(p.Weapon(), p.Ammo(dm, p.Velocity.FPS(2700)), atmo=_atmo(p))
    calc = tc.TrajectoryCalc(create_interface_config(None))
    calc._init_trajectory(shot)
    got = calc.drag_by_mach(M)
    cd = tc._calculate_by_curve_and_mach_list(tc._get_only_mach_data(calc.table_data), tc.calculate_curve(calc.table_data), M)
    pi = F(314159265358979, 10 ** 14)
    k = F(76474, 10 ** 6) * pi / (8 * 144)
    ctx.check_eq('bc_scaling', got * bc, cd * F(2.08551e-04), rel=1e-12, abs=1e-15)
    ctx.check_eq('retardation_constant', got * bc, cd * k, rel=1e-5, abs=1e-12)
    ctx.check('table_is_models', calc.table_data is dm.drag_table)
    # the same solver object reused for a model that shares the table but has another BC (copy / in-place change of BC)
    import copy
    bc2 = ctx.real('bc2', 1e-4, 100)
    dm2 = copy.copy(dm)
    dm2.BC = bc2
    shot2 = p.Shot(p.Weapon(), p.Ammo(dm2, p.Velocity.FPS(2700)), atmo=_atmo(p))
    calc._init_trajectory(shot2)
    ctx.check_eq('bc_of_the_current_shot_on_a_reused_solver', calc.drag_by_mach(M) * bc2, cd * F(2.08551e-04), rel=1e-12, abs=1e-15)
    dm.BC = bc2
    calc._init_trajectory(shot)
    ctx.check_eq('bc_of_the_current_shot_on_a_reused_solver', calc.drag_by_mach(M) * bc2, cd * F(2.08551e-04), rel=1e-12, abs=1e-15, info={'how': 'BC changed in place'})


@harness('C09.shared_points', 'C09', functions=FUNCS + ['py_ballisticcalc.drag_model.make_data_points', 'py_ballisticcalc.drag_model.DragModelMultiBC.__init__'],
         must_reach=['check:drag_is_the_tables_whatever_else_was_built_from_it'], engine_opts={'div_check': False},
         bounds='one table kept by the caller as a list of DragDataPoint objects (3 symbolic points) and used for a plain model, then for a multi-BC model '
                '(2 symbolic BC points), then for a plain model again: the caller\'s list and points are unchanged and BOTH plain models give the solver '
                'the tabulated CD / BC at every node')
def c09_shared_points(ctx):
    p, tc = pybc(), _tc()
    import py_ballisticcalc.drag_model as dmod
    from py_ballisticcalc.interface_config import create_interface_config
    ms, cds = [], []
    for i in range(3):
        m = ctx.real(f'mach{i}', 0, 10)
        if i:
            ctx.assume(m > ms[-1])
        ms.append(m)
        cds.append(ctx.real(f'cd{i}', 1e-3, 10))
    pts = [dmod.DragDataPoint(ms[i], cds[i]) for i in range(3)]
    held = list(pts)
    bc = ctx.real('bc', 1e-3, 10)
    plain1 = p.DragModel(bc, pts)
    b1, b2 = ctx.real('bc_point1', 1e-3, 10), ctx.real('bc_point2', 1e-3, 10)
    dmod.DragModelMultiBC([dmod.BCPoint(b1, Mach=ms[0]), dmod.BCPoint(b2, Mach=ms[2])], pts)
    plain2 = p.DragModel(bc, pts)
    ctx.check('callers_table_unchanged', len(pts) == 3 and all(pts[i] is held[i] for i in range(3))
              and all(ctx.same_term(held[i].CD, cds[i]) and ctx.same_term(held[i].Mach, ms[i]) for i in range(3)))
    for tag, model in (('built before', plain1), ('built after', plain2)):
        calc = tc.TrajectoryCalc(create_interface_config(None))
        calc._init_trajectory(p.Shot(p.Weapon(), p.Ammo(model, p.Velocity.FPS(2700)), atmo=_atmo(p)))
        for i in range(3):
            ctx.check_eq('drag_is_the_tables_whatever_else_was_built_from_it', calc.drag_by_mach(ms[i]) * bc, cds[i] * F(2.08551e-04), rel=1e-9, abs=1e-15,
                         info={'model': tag, 'node': i})


@harness('C09.sequence', 'C09', functions=FUNCS, must_reach=['check:each_lookup_is_a_function_of_its_mach_only', 'rising', 'falling'],
         bounds='one solver object, a 6-node custom table, THREE successive drag_by_mach look-ups at symbolic Mach numbers M1, M2, M1 in [0,5] in any order '
                '(rising and falling; every pair of table intervals): each equals the stateless table look-up at its own Mach number')
def c09_sequence(ctx):
    p, tc = pybc(), _tc()
    from py_ballisticcalc.interface_config import create_interface_config
    table = [{'Mach': m, 'CD': c} for m, c in ((0.0, 0.2), (0.5, 0.25), (0.9, 0.4), (1.2, 0.5), (2.0, 0.35), (4.0, 0.2))]
    dm = p.DragModel(0.3, table)
    shot = p.Shot(p.Weapon(), p.Ammo(dm, p.Velocity.FPS(2700)), atmo=_atmo(p))
    calc = tc.TrajectoryCalc(create_interface_config(None))
    calc._init_trajectory(shot)
    M1 = ctx.real('mach1', 0, 5)
    M2 = ctx.real('mach2', 0, 5)
    ctx.reach('rising' if M2 > M1 else 'falling')
    machs = tc._get_only_mach_data(calc.table_data)
    curve = tc.calculate_curve(calc.table_data)
    for i, M in enumerate((M1, M2, M1)):
        got = calc.drag_by_mach(M)
        want = tc._calculate_by_curve_and_mach_list(machs, curve, M) * 2.08551e-04 / 0.3
        ctx.check_eq('each_lookup_is_a_function_of_its_mach_only', got, want, rel=1e-12, abs=1e-15, info={'call': i})


_ATMO = []


def _atmo(p):
    if not _ATMO:
        _ATMO.append(p.Atmo.icao())
    return _ATMO[0]


def _digest(t):
    canon = json.dumps([[repr(float(pt['Mach'])), repr(float(pt['CD']))] for pt in t])
    return hashlib.sha256(canon.encode()).hexdigest()


@harness('C09.tables', 'C09', configs=lambda tier: [{'table': t} for t in TABLES], functions=FUNCS,
         must_reach=['check:pinned_digest', 'check:ascending_from_zero', 'check:unchanged_by_library_calls'],
         bounds='9 shipped tables: structure, pinned SHA-256 (ref/tables.json), and content before/after a real zero + fire + multi-BC construction',
         outside=['identity with the PUBLISHED tables (no publication offline): the digest of the pinned tables is the trusted reference'])
def c09_tables(ctx, table):
    p = pybc()
    with open(os.path.join(VERIF, 'ref', 'tables.json')) as f:
        ref = json.load(f)['tables'][table]
    t = getattr(p, table)
    ctx.check('pinned_digest', _digest(t) == ref['sha256'] and len(t) == ref['n'])
    ctx.check('ascending_from_zero', t[0]['Mach'] == 0 and all(a['Mach'] < b['Mach'] for a, b in zip(t, t[1:])) and len(t) >= 3
              and all(pt['CD'] > 0 for pt in t))
    before = _digest(t)
    ids = [id(pt) for pt in t]
    dm = p.DragModel(0.3, t, 150, 0.308, 1.2)
    ctx.check('fresh_points', all(not isinstance(a, dict) for a in dm.drag_table) and len(dm.drag_table) == len(t))
    calc = p.Calculator(_config={'max_calc_step_size_feet': 5.0})
    shot = p.Shot(p.Weapon(p.Unit.Inch(2)), p.Ammo(dm, p.Velocity.FPS(2600)), atmo=_atmo(p))
    calc.set_weapon_zero(shot, p.Unit.Yard(100))
    calc.fire(shot, p.Unit.Yard(300), p.Unit.Yard(100), extra_data=True)
    p.DragModelMultiBC([p.BCPoint(0.3, Mach=1.0), p.BCPoint(0.28, Mach=2.0)], t, 150, 0.308)
    ctx.check('unchanged_by_library_calls', _digest(t) == before and [id(pt) for pt in t] == ids)
