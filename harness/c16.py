"""C16 - danger space is the contiguous stretch of trajectory within the target.

Pattern U on symbolic trajectories: N real TrajectoryData rows with symbolic strictly increasing distances and
symbolic target drops (any shape: flat, arcing, rising or falling), real HitResult.danger_space with symbolic range
and target height.  The scan loops unroll completely (bound = N).
"""
from symx.runner import harness
from harness.common import pybc, mkrow, index_of, with_preferred, DIST_UNITS
from ref import si

FUNCS = ['py_ballisticcalc.trajectory_data._trajectory_data.HitResult.danger_space',
         'py_ballisticcalc.trajectory_data._trajectory_data.HitResult.index_at_distance']


def _cfg(tier):
    ns = [1, 2, 3, 4, 5] if tier == 'quick' else [1, 2, 3, 4, 5, 6, 7]
    out = []
    for i, n in enumerate(ns):
        for mode in ('quantity', 'bare'):
            out.append({'n': n, 'mode': mode, 'unit': DIST_UNITS[(i * 2 + (mode == 'bare')) % len(DIST_UNITS)]})
    return out


def _traj(ctx, p, n):
    d, drop = [], []
    for i in range(n):
        di = ctx.real(f'dist{i}', 0, 1e5)
        if i:
            ctx.assume(di > d[-1])
        d.append(di)
        drop.append(ctx.real(f'drop{i}', -1e4, 1e4))
    rows = [mkrow(p, time=float(i), dist_ft=d[i], drop_ft=drop[i]) for i in range(n)]
    return d, drop, rows


@harness('C16.space', 'C16', configs=_cfg, functions=FUNCS, cost=5,
         must_reach=['check:brackets_request', 'check:inside_within_half_height', 'check:bound_is_edge_or_exceeds', 'check:monotone_in_height',
                     'rising', 'falling'],
         bounds='trajectories of N = 1..5 (quick) / 1..7 (thorough) rows, distances strictly increasing in [0,1e5] ft, drops arbitrary in '
                '[-1e4,1e4] ft; range request and target height (>= 0) symbolic, given as quantity (each distance unit) or bare number under '
                'the preferred unit; second call with a larger height for monotonicity',
         assumptions=['floats as reals: the scans only compare differences of drops with half the height (order-only code, exact up to rounding of the subtraction)'])
def c16_space(ctx, n, mode, unit):
    p = pybc()
    U = getattr(p.Unit, unit)
    d, drop, rows = _traj(ctx, p, n)
    hr = p.HitResult(None, rows, True)
    R = ctx.real('at_range_ft', 0, 1e5)          # request (feet)
    h = ctx.real('height_ft', 0, 1e4)            # target height (feet)
    dh = ctx.real('extra_height_ft', 0, 1e4)
    to_u = lambda ft: ft * (si.FOOT / si.LENGTH_M[unit])    # the same length expressed in `unit`
    with with_preferred(distance=U):
        def call(height_ft):
            if mode == 'quantity':
                return hr.danger_space(U(to_u(R)), U(to_u(height_ft)), p.Angular.Radian(0.0))
            return hr.danger_space(to_u(R), to_u(height_ft), 0.0)
        try:
            ds = call(h)
            raised = False
        except ArithmeticError:
            raised = True
    # the request as the real unit code reads it (unit factors are C06's subject, not this property's)
    Rin = U(to_u(R)).raw_value
    din = [r.distance.raw_value for r in rows]
    beyond = Rin > din[-1]
    ctx.check('beyond_raises', raised == beyond)
    if raised:
        return
    ia, ib, ie = index_of(rows, ds.at_range), index_of(rows, ds.begin), index_of(rows, ds.end)
    ctx.check('rows_of_trajectory', ia is not None and ib is not None and ie is not None)
    # at-range row: first with distance >= request
    ctx.check('at_range_is_first_reaching', ctx.all([din[ia] >= Rin] + [din[j] < Rin for j in range(ia)]))
    ctx.check('brackets_request', ib <= ia <= ie)
    half = U(to_u(h)).raw_value / 2        # half the height as the real unit code reads it (inches)
    drop = [r.target_drop.raw_value for r in rows]
    for j in range(ib + 1, ie):
        if j == ia:
            continue
        if drop[j] > drop[ia]:
            ctx.reach('falling' if j < ia else 'rising')
        ctx.check('inside_within_half_height', ctx.abs(drop[j] - drop[ia]) <= half, info={'row': j, 'at': ia, 'begin': ib, 'end': ie})
    ctx.check('bound_is_edge_or_exceeds', (ib == 0) or (ctx.abs(drop[ib] - drop[ia]) >= half) or ib == ia, info={'bound': 'begin'})
    ctx.check('bound_is_edge_or_exceeds', (ie == n - 1) or (ctx.abs(drop[ie] - drop[ia]) >= half) or ie == ia, info={'bound': 'end'})
    ctx.check_eq('height_recorded', ds.target_height.raw_value, h * 12, rel=1e-9, abs=1e-9)
    # monotone in the target height
    with with_preferred(distance=U):
        ds2 = call(h + dh)
    ib2, ie2 = index_of(rows, ds2.begin), index_of(rows, ds2.end)
    ctx.check('monotone_in_height', ib2 <= ib and ie2 >= ie, info={'b1': ib, 'b2': ib2, 'e1': ie, 'e2': ie2})


@harness('C16.noextra', 'C16', functions=FUNCS, must_reach=['check:no_extra_data_rejected'],
         bounds='a result computed without extra data rejects the query (AttributeError) for any rows / request')
def c16_noextra(ctx):
    p = pybc()
    d, drop, rows = _traj(ctx, p, 3)
    hr = p.HitResult(None, rows, False)
    R = ctx.real('at_range_ft', 0, 1e5)
    try:
        hr.danger_space(p.Distance.Foot(R), p.Distance.Foot(1.0), p.Angular.Radian(0.0))
        ok = False
    except AttributeError:
        ok = True
    ctx.check('no_extra_data_rejected', ok)
