"""C16 - danger space is the contiguous stretch of trajectory within the target.

Pattern U on symbolic trajectories: N real TrajectoryData rows with symbolic strictly increasing distances and
symbolic target drops (any shape: flat, arcing, rising or falling), real HitResult.danger_space with symbolic range
and target height.  The scan loops unroll completely (bound = N).
"""
from symx.runner import harness
from harness.common import pybc, mkrow, index_of, with_preferred, DIST_UNITS
from ref import si

FUNCS = ['py_ballisticcalc.trajectory_data._trajectory_data.HitResult.danger_space',
         'py_ballisticcalc.trajectory_data._trajectory_data.HitResult.index_at_distance']


def _cfg(tier):
    ns = [1, 2, 3, 4, 5] if tier == 'quick' else [1, 2, 3, 4, 5, 6, 7]
    out = []
    for i, n in enumerate(ns):
        for mode in ('quantity', 'bare'):
            out.append({'n': n, 'mode': mode, 'unit': DIST_UNITS[(i * 2 + (mode == 'bare')) % len(DIST_UNITS)]})
    # the full question sequence on one result object (see the harness) on the shorter trajectories
    for n in ([2, 3] if tier == 'quick' else [2, 3, 4]):
        out.append({'n': n, 'mode': 'quantity', 'unit': 'Foot', 'seq': True})
    # rows of an extra-data result that are pure EVENT rows (zero crossing / Mach crossing between recording steps, no RANGE bit):
    # they are rows of the trajectory like any other - each position in turn, each event flag
    for n in ([3, 4] if tier == 'quick' else [3, 4, 5]):
        for i in range(n):
            out.append({'n': n, 'mode': 'quantity', 'unit': 'Yard', 'ev': [i], 'evflag': (1, 2, 4)[i % 3]})
        out.append({'n': n, 'mode': 'quantity', 'unit': 'Meter', 'ev': list(range(1, n - 1)), 'evflag': 4})
    return out


def _traj(ctx, p, n, ev=(), evflag=4, pre=''):
    d, drop = [], []
    for i in range(n):
        di = ctx.real(f'{pre}dist{i}', 0, 1e5)
        if i:
            ctx.assume(di > d[-1])
        d.append(di)
        drop.append(ctx.real(f'{pre}drop{i}', -1e4, 1e4))
    # the sight-line distance column is independent of the (horizontal) distance column: any inclination
    look = []
    for i in range(n):
        li = ctx.real(f'{pre}lookdist{i}', 0, 2e5)
        ctx.assume(li >= d[i])
        if i:
            ctx.assume(li > look[-1])
        look.append(li)
    rows = [mkrow(p, time=float(i), dist_ft=d[i], drop_ft=drop[i], look_ft=look[i], flag=(evflag if i in ev else (8 if i % 3 else 9))) for i in range(n)]
    return d, drop, rows


@harness('C16.space', 'C16', configs=_cfg, functions=FUNCS, cost=5,
         must_reach=['check:brackets_request', 'check:inside_within_half_height', 'check:bound_is_edge_or_exceeds', 'check:monotone_in_height',
                     'rising', 'falling'],
         bounds='trajectories of N = 1..5 (quick) / 1..7 (thorough) rows, distances strictly increasing in [0,1e5] ft, drops arbitrary in '
                '[-1e4,1e4] ft; range request and target height (>= 0) symbolic, given as quantity (each distance unit) or bare number under '
                'the preferred unit; the same result object asked four more times (taller target: all claims again + monotone; the first height again; another range; the taller target again); '
                'sight-line distance column independent of the distance column (any inclination); symbolic look angle argument; rows carry RANGE, RANGE|ZERO_UP or (n = 3, 4: each position in turn) a pure event flag without the RANGE bit',
         assumptions=['floats as reals: the scans only compare differences of drops with half the height (order-only code, exact up to rounding of the subtraction)'])
def c16_space(ctx, n, mode, unit, seq=False, ev=(), evflag=4):
    p = pybc()
    U = getattr(p.Unit, unit)
    d, drop, rows = _traj(ctx, p, n, ev, evflag)
    hr = p.HitResult(None, rows, True)
    R = ctx.real('at_range_ft', 0, 1e5)          # request (feet)
    h = ctx.real('height_ft', 0, 1e4)            # target height (feet)
    dh = ctx.real('extra_height_ft', 0, 1e4)
    to_u = lambda ft: ft * (si.FOOT / si.LENGTH_M[unit])    # the same length expressed in `unit`
    lk = ctx.real('look_rad', -1.5, 1.5)
    with with_preferred(distance=U):
        def call(height_ft):
            if mode == 'quantity':
                return hr.danger_space(U(to_u(R)), U(to_u(height_ft)), p.Angular.Radian(lk))
            return hr.danger_space(to_u(R), to_u(height_ft), lk)
        try:
            ds = call(h)
            raised = False
        except ArithmeticError:
            raised = True
    # the request as the real unit code reads it (unit factors are C06's subject, not this property's)
    Rin = U(to_u(R)).raw_value
    din = [r.distance.raw_value for r in rows]
    beyond = Rin > din[-1]
    ctx.check('beyond_raises', raised == beyond)
    if raised:
        return
    drop = [r.target_drop.raw_value for r in rows]

    def claims(ds, height_ft, tag):
        ia, ib, ie = index_of(rows, ds.at_range), index_of(rows, ds.begin), index_of(rows, ds.end)
        ctx.check('rows_of_trajectory', ia is not None and ib is not None and ie is not None, info={'call': tag})
        # at-range row: first with distance >= request
        ctx.check('at_range_is_first_reaching', ctx.all([din[ia] >= Rin] + [din[j] < Rin for j in range(ia)]), info={'call': tag})
        ctx.check('brackets_request', ib <= ia <= ie, info={'call': tag})
        half = U(to_u(height_ft)).raw_value / 2        # half the height as the real unit code reads it (inches)
        for j in range(ib + 1, ie):
            if j == ia:
                continue
            if drop[j] > drop[ia]:
                ctx.reach('falling' if j < ia else 'rising')
            ctx.check('inside_within_half_height', ctx.abs(drop[j] - drop[ia]) <= half, info={'row': j, 'at': ia, 'begin': ib, 'end': ie, 'call': tag})
        ctx.check('bound_is_edge_or_exceeds', (ib == 0) or (ctx.abs(drop[ib] - drop[ia]) >= half) or ib == ia, info={'bound': 'begin', 'call': tag})
        ctx.check('bound_is_edge_or_exceeds', (ie == n - 1) or (ctx.abs(drop[ie] - drop[ia]) >= half) or ie == ia, info={'bound': 'end', 'call': tag})
        ctx.check_eq('height_recorded', ds.target_height.raw_value, height_ft * 12, rel=1e-9, abs=1e-9, info={'call': tag})
        return ia, ib, ie
    ia, ib, ie = claims(ds, h, 'first')
    # the same result object asked again: a taller target (every claim again + monotone in the height), then the first height
    # again (same answer as the first time), then a request at another range and the first one once more
    with with_preferred(distance=U):
        ds2 = call(h + dh)
    ib2, ie2 = index_of(rows, ds2.begin), index_of(rows, ds2.end)
    ctx.check('monotone_in_height', ib2 <= ib and ie2 >= ie, info={'b1': ib, 'b2': ib2, 'e1': ie, 'e2': ie2})
    # the rows of the first answer are re-displayed in another unit (what printing a DangerSpace does to them: display unit only,
    # magnitudes unchanged), so the trajectory now carries rows in MIXED display units; the first question again: the first answer
    RU = p.Unit.Yard if unit != 'Yard' else p.Unit.Meter
    for r in (ds.at_range, ds.begin, ds.end):
        r.distance << RU
        r.target_drop << p.Unit.Centimeter
    with with_preferred(distance=U):
        ds5 = call(h)
    ctx.check('same_question_same_answer', (index_of(rows, ds5.at_range), index_of(rows, ds5.begin), index_of(rows, ds5.end)) == (ia, ib, ie),
              info={'first': (ia, ib, ie), 'after': 'rows of the first answer re-displayed in other units'})
    if not seq:
        return
    ia2, ib2, ie2 = claims(ds2, h + dh, 'second, taller target')
    with with_preferred(distance=U):
        ds3 = call(h)
    ctx.check('same_question_same_answer', (index_of(rows, ds3.at_range), index_of(rows, ds3.begin), index_of(rows, ds3.end)) == (ia, ib, ie),
              info={'first': (ia, ib, ie)})
    if n >= 2:
        with with_preferred(distance=U):
            try:
                hr.danger_space(U(to_u(din[0] / 12)), U(to_u(h + dh)), p.Angular.Radian(lk))
            except ArithmeticError:
                pass
            ds4 = call(h + dh)
        ctx.check('same_question_same_answer', (index_of(rows, ds4.at_range), index_of(rows, ds4.begin), index_of(rows, ds4.end)) == (ia2, ib2, ie2),
                  info={'after': 'a request at another range'})


@harness('C16.noextra', 'C16', functions=FUNCS, must_reach=['check:no_extra_data_rejected'],
         bounds='a result computed without extra data rejects the query (AttributeError) for any rows / request')
def c16_noextra(ctx):
    p = pybc()
    d, drop, rows = _traj(ctx, p, 3)
    hr = p.HitResult(None, rows, False)
    R = ctx.real('at_range_ft', 0, 1e5)
    try:
        hr.danger_space(p.Distance.Foot(R), p.Distance.Foot(1.0), p.Angular.Radian(0.0))
        ok = False
    except AttributeError:
        ok = True
    ctx.check('no_extra_data_rejected', ok)


@harness('C16.successive', 'C16', configs=lambda tier: [{'n': n} for n in ([2, 3] if tier == 'quick' else [2, 3, 4])], functions=FUNCS, cost=3,
         must_reach=['check:inside_within_half_height', 'check:bound_is_edge_or_exceeds'],
         bounds='six result objects of the same length over two independent symbolic trajectories (A, B, A, B, A, B), each created, asked the same '
                'question and RELEASED before the next is created (CPython\'s list free-list is drained first, so the next row list gets the '
                'address of the one just freed): every answer is about the rows of the result that was asked',
         assumptions=['address reuse is CPython allocator behaviour: when a new list does not land on the freed address the harness is an ordinary two-trajectory check'])
def c16_successive(ctx, n):
    p = pybc()
    R = ctx.real('at_range_ft', 0, 1e5)
    h = ctx.real('height_ft', 0, 1e4)
    sets = [tuple(_traj(ctx, p, n, pre=f't{k}_')[2]) for k in range(2)]
    drain = [[] for _ in range(160)]             # empties the interpreter's free-list of list objects (kept alive to the end)
    for k in range(6):
        lst = [*sets[k % 2]]                     # a fresh list object, taken from the free-list (the previous result and its list were released just before)
        hr = p.HitResult(None, lst, True)
        rows = sets[k % 2]
        din = [r.distance.raw_value for r in rows]
        drop = [r.target_drop.raw_value for r in rows]
        try:
            ds = hr.danger_space(p.Distance.Foot(R), p.Distance.Foot(h), p.Angular.Radian(0.0))
        except ArithmeticError:
            ctx.check('beyond_raises', R * 12 > din[-1], info={'result': k})
            del hr, lst
            continue
        ia, ib, ie = index_of(rows, ds.at_range), index_of(rows, ds.begin), index_of(rows, ds.end)
        ctx.check('rows_of_trajectory', ia is not None and ib is not None and ie is not None, info={'result': k})
        if ia is None or ib is None or ie is None:
            return
        half = h * 12 / 2
        ctx.check('at_range_is_first_reaching', ctx.all([din[ia] >= R * 12] + [din[j] < R * 12 for j in range(ia)]), info={'result': k})
        for j in range(ib + 1, ie):
            if j != ia:
                ctx.check('inside_within_half_height', ctx.abs(drop[j] - drop[ia]) <= half, info={'row': j, 'at': ia, 'result': k})
        ctx.check('bound_is_edge_or_exceeds', (ib == 0) or (ctx.abs(drop[ib] - drop[ia]) >= half) or ib == ia, info={'bound': 'begin', 'result': k})
        ctx.check('bound_is_edge_or_exceeds', (ie == n - 1) or (ctx.abs(drop[ie] - drop[ia]) >= half) or ie == ia, info={'bound': 'end', 'result': k})
        del hr, lst, ds
    del drain


@harness('C16.float_witness', 'C16', functions=FUNCS, must_reach=['check:request_equal_to_a_row_distance_selects_that_row'],
         bounds='TEST STRENGTH (concrete doubles; the symbolic harnesses compare over the reals, where a unit round trip is exact): 60 rows at k x 25 m (and k x 30 yd, k x 100 ft) '
                'asked for at exactly the distance of each row, as a quantity in the rows\' unit, under a preferred unit that differs from it: the target row is that row, '
                'the last row is reached, and the next representable distance beyond the last row is not')
def c16_float_witness(ctx):
    import math
    p = pybc()
    U = p.Unit
    bad = []
    for (ru, stepv, pref) in ((U.Meter, 25.0, U.Yard), (U.Yard, 30.0, U.Meter), (U.Foot, 100.0, U.Meter), (U.Meter, 0.3, U.Foot)):
        rows = [mkrow(p, time=float(k), dist_ft=0.0, drop_ft=-0.001 * k * k) for k in range(60)]
        rows = [r._replace(distance=ru(stepv * k)) for k, r in enumerate(rows)]
        hr = p.HitResult(None, rows, True)
        with with_preferred(distance=pref):
            for k in range(60):
                try:
                    ds = hr.danger_space(ru(stepv * k), U.Inch(1.0), U.Radian(0.0))
                    if ds.at_range is not rows[k]:
                        bad.append((str(ru), k, index_of(rows, ds.at_range)))
                except ArithmeticError:
                    bad.append((str(ru), k, 'raised'))
            try:
                hr.danger_space(ru(math.nextafter(stepv * 59, math.inf)), U.Inch(1.0), U.Radian(0.0))
                bad.append((str(ru), 'beyond', 'accepted'))
            except ArithmeticError:
                pass
    ctx.check('request_equal_to_a_row_distance_selects_that_row', not bad, info={'bad': bad[:6], 'count': len(bad)})
