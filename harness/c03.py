"""C03 - the range card has exactly one row at every requested distance, muzzle to range.

filter : pattern I - one real _TrajectoryDataFilter.should_record call from an ARBITRARY filter state (symbolic next record distance,
         previous point) constrained only by the representation invariant; a row is emitted iff the next record distance was
         reached, it is the linear interpolation at exactly that distance, and the invariant holds again (=> every shot, any length).
fire   : pattern P - the real Calculator.fire on carriers (concrete physics) with SYMBOLIC range and record step: one path per cell
         of the (range, step) plane; row count, row distances (= k*step as terms), monotonicity, muzzle row, 11 rows by default,
         time-step spacing.
"""
from symx.runner import harness
from harness.common import pybc
from harness import carriers

FUNCS = ['py_ballisticcalc.trajectory_calc._trajectory_calc._TrajectoryDataFilter.should_record',
         'py_ballisticcalc.trajectory_calc._trajectory_calc._TrajectoryDataFilter.check_next_time',
         'py_ballisticcalc.trajectory_calc._trajectory_calc.TrajectoryCalc._integrate',
         'py_ballisticcalc.trajectory_calc._trajectory_calc.TrajectoryCalc.trajectory',
         'py_ballisticcalc.interface.Calculator.fire']


def _tc():
    import py_ballisticcalc.trajectory_calc._trajectory_calc as tc
    return tc


@harness('C03.filter', 'C03', functions=FUNCS, engine_opts={'div_check': False},
         must_reach=['check:row_iff_record_distance_reached', 'check:row_is_interpolation_at_record_distance', 'check:invariant_again', 'emitted', 'not_emitted'],
         bounds='one should_record call from an arbitrary filter state: symbolic record step S > 0, next record distance N, previous point '
                '(time, x, y, z, velocity, speed of sound), new point with x > previous x and x - previous x <= S (record step not smaller than '
                'the integration advance, as the statement requires); inductive => all shots and lengths',
         assumptions=['representation invariant: previous x <= N (N is the smallest multiple not yet emitted; equality when the previous point sits exactly on it; initial state 0 <= 0)'])
def c03_filter(ctx):
    p, tc = pybc(), _tc()
    from py_ballisticcalc.vector import Vector
    S = ctx.real('record_step', 1e-3, 1e5)
    N = ctx.real('next_record_distance', 0, 1e7)
    px, py_, pz = ctx.real('prev_x', 0, 1e7), ctx.real('prev_y', -1e5, 1e5), ctx.real('prev_z', -1e5, 1e5)
    pt = ctx.real('prev_t', 0, 1e4)
    pvx, pvy, pvz = ctx.real('prev_vx', -1e4, 1e4), ctx.real('prev_vy', -1e4, 1e4), ctx.real('prev_vz', -1e4, 1e4)
    pa = ctx.real('prev_a', 100, 2000)
    x, y, z = ctx.real('x', 0, 1e7), ctx.real('y', -1e5, 1e5), ctx.real('z', -1e5, 1e5)
    t = ctx.real('t', 0, 1e4)
    vx, vy, vz = ctx.real('vx', -1e4, 1e4), ctx.real('vy', -1e4, 1e4), ctx.real('vz', -1e4, 1e4)
    a = ctx.real('a', 100, 2000)
    ctx.assume(px <= N)
    ctx.assume((x > px) & (x - px <= S) & (t > pt))
    f = tc._TrajectoryDataFilter(filter_flags=p.TrajFlag.RANGE, range_step=S, initial_position=Vector(px, py_, pz),
                                 initial_velocity=Vector(pvx, pvy, pvz), time_step=0.0)
    f.next_record_distance = N
    f.previous_time = pt
    f.previous_mach = pa
    f.time_of_last_record = pt
    f.clear_current_flag()
    data = f.should_record(Vector(x, y, z), Vector(vx, vy, vz), a, t)
    emitted = data is not None
    ctx.reach('emitted' if emitted else 'not_emitted')
    ctx.check('row_iff_record_distance_reached', emitted == (x >= N))
    if emitted:
        r = (N - px) / (x - px)
        ctx.check_eq('row_is_interpolation_at_record_distance', data.position.x, N)
        ctx.check_eq('row_is_interpolation_at_record_distance', data.time, pt + (t - pt) * r, info={'f': 'time'})
        ctx.check_eq('row_is_interpolation_at_record_distance', data.position.y, py_ + (y - py_) * r, info={'f': 'y'})
        ctx.check_eq('row_is_interpolation_at_record_distance', data.position.z, pz + (z - pz) * r, info={'f': 'z'})
        ctx.check_eq('row_is_interpolation_at_record_distance', data.velocity.x, pvx + (vx - pvx) * r, info={'f': 'vx'})
        ctx.check_eq('row_is_interpolation_at_record_distance', data.velocity.y, pvy + (vy - pvy) * r, info={'f': 'vy'})
        ctx.check_eq('row_is_interpolation_at_record_distance', data.mach, pa + (a - pa) * r, info={'f': 'a'})
        ctx.check('flag_is_range', bool(f.current_flag & p.TrajFlag.RANGE))
        ctx.check_eq('next_multiple', f.next_record_distance, N + S)
        ctx.check('row_between_points', (data.time >= pt) & (data.time <= t))
    else:
        ctx.check_eq('next_multiple', f.next_record_distance, N)
    # invariant again
    ctx.check('invariant_again', ctx.same_term(f.previous_position.x, x) and (f.previous_position.x <= f.next_record_distance))
    ctx.check('previous_is_current', ctx.same_term(f.previous_time, t) and ctx.same_term(f.previous_mach, a)
              and ctx.same_term(f.previous_velocity.y, vy))


def _cfg_fire(tier):
    out = []
    K = 12 if tier == 'quick' else 24
    plan = [('A', 100.0, 'none'), ('A', 100.0, 'two'), ('B', 60.0, 'left'), ('C', 100.0, 'tail'), ('A', 2.0, 'tail30'), ('D', 20.0, 'none')] if tier == 'quick' else \
        [('A', 100.0, w) for w in ('none', 'tail', 'two')] + [('B', 60.0, 'left'), ('C', 100.0, 'tail'),
                                                                           ('C', 100.0, 'head'), ('A', 30.0, 'two'), ('A', 0.5, 'none'), ('A', 2.0, 'tail30'), ('A', 0.5, 'tail30'), ('D', 20.0, 'none'), ('D', 6.0, 'head')]
    for (c, step, wind) in plan:
        rmax = K * step / 2 * 0.95
        shards = 4 if tier == 'quick' else 8
        for i in range(shards):
            rlo, rhi = rmax * i / shards, rmax * (i + 1) / shards
            if rhi < step * 1.01:
                continue
            for mode in ('step', 'time'):
                if mode != 'step' and (wind not in ('none', 'two') or i % 2):
                    continue
                if mode == 'step':
                    # shard the record-step axis as well
                    sh = max(1, int((rhi - step) // (rmax / shards)) + 1)
                    for j in range(sh):
                        slo, shi = step + (rhi - step) * j / sh, step + (rhi - step) * (j + 1) / sh
                        out.append({'carrier': c, 'step_ft': step, 'wind': wind, 'rlo': rlo, 'rhi': rhi, 'mode': mode,
                                    'unit': ['Foot', 'Meter', 'Yard', 'bare'][(i + j) % 4], 'slo': slo, 'shi': shi,
                                    # the step in a form of its own (quantity in another unit / bare), bare numbers under a preferred unit of the cell
                                    'sunit': ['bare', 'Yard', 'Foot', 'Meter', 'bare'][(i + 2 * j) % 5], 'pref': ['Foot', 'Meter', 'Yard'][(i + j) % 3]})
                else:
                    out.append({'carrier': c, 'step_ft': step, 'wind': wind, 'rlo': rlo, 'rhi': rhi,
                                'mode': mode, 'unit': ['Foot', 'Meter', 'Yard', 'bare'][i % 4]})
    # canted rifles (the muzzle row is displaced by the canted sight height): both signs
    for cd in ((-25.0, 200.0) if tier == 'quick' else (-25.0, 200.0, 40.0, -170.0)):
        out.append({'carrier': 'A', 'step_ft': 100.0, 'wind': 'none', 'rlo': 101.0, 'rhi': 250.0, 'mode': 'step', 'unit': 'Foot', 'slo': 100.0, 'shi': 250.0, 'cant_deg': cd})
    # default step (range / 10 must be >= the integration step, as the statement requires): finer carriers, K = 22..26 steps
    for (c, step, wind) in ([('A', 20.0, 'none'), ('B', 12.0, 'left'), ('Ainc', 20.0, 'none')] if tier == 'quick' else
                            [('A', 20.0, 'none'), ('A', 20.0, 'two'), ('B', 12.0, 'left'), ('C', 20.0, 'tail'), ('A', 2.0, 'none'), ('Ainc', 20.0, 'none')]):
        for i in range(4 if tier == 'quick' else 12):
            lo = 10 * step * (1 + 0.05 * i)
            out.append({'carrier': c, 'step_ft': step, 'wind': wind, 'rlo': lo, 'rhi': 10 * step * (1 + 0.05 * (i + 1)), 'mode': 'nostep',
                        'unit': ['Foot', 'Meter', 'Yard', 'bare'][i % 4]})
    return out


@harness('C03.fire', 'C03', configs=_cfg_fire, functions=FUNCS, cost=20, engine_opts={'div_check': False, 'nl_axioms_in_feasibility': False},
         must_reach=['check:one_row_per_multiple', 'check:row_distance_is_multiple', 'check:strictly_increasing', 'check:muzzle_row',
                     'check:default_step_gives_11_rows', 'check:time_step_spacing'],
         bounds='real Calculator.fire on carriers A (.308 G7, none/two winds; 2 ft step with a 30 mph tail wind), B (G1 1250 fps, cross wind), C (G1 930 m/s at 30 deg, tail wind), D (300 fps lofted at 50 deg) with a coarse '
                'integration step so that the horizon is K <= 12 (quick) / 24 (thorough) integration steps; symbolic range R in (0, Rmax] and record step '
                'S in [max step, Rmax] as quantity in ft / m / yd or bare float; every cell of the (R, S) plane; also default step and time step',
         assumptions=['floats as reals for the symbolic record arithmetic (row distance = k*S exactly over the reals; the physics runs in true doubles)'],
         outside=['shots other than the carriers (covered by C03.filter inductively)', 'record steps smaller than the integration step'])
def c03_fire(ctx, carrier, step_ft, wind, rlo, rhi, mode, unit, slo=None, shi=None, cant_deg=0.0, sunit=None, pref='Foot'):
    p = pybc()
    U = p.Unit
    if carrier == 'Ainc':
        carrier, cant_deg = 'A', cant_deg       # carrier A with a 25 deg sight line (the default step must not depend on the look angle)
        inc = {'look_deg': 25.0}
    else:
        inc = {}
    extra = dict(inc, relative_deg=30.0) if carrier == 'C' else (dict(inc, relative_deg=50.0) if carrier == 'D' else dict(inc))     # D: slow lofted shot (the path flattens quickly)
    if cant_deg:
        extra = dict(extra, cant_deg=cant_deg)
    calc, shot = carriers.make(carrier, step_ft, wind, **extra)
    if mode == 'time':
        # only the time step is symbolic here (range and record step concrete): cells of the tau axis
        R, S = float(rhi), float(max(rhi, step_ft))
        tau = ctx.real('time_step', 1e-4, 1.0)
    else:
        R = ctx.real('range_ft', rlo, rhi)
        ctx.assume(R > rlo)
        ctx.assume(R >= step_ft * 1.01)
        if mode == 'step':
            S = ctx.real('record_step_ft', slo, shi)
        else:
            S = R / 10
            ctx.assume(S >= step_ft)
        tau = 0.0

    PU = getattr(U, pref)

    def q(v, unit=unit):
        if unit == 'bare':
            return p.Distance.Foot(v) >> PU          # the number of preferred units
        uu = getattr(U, unit)
        return uu(p.Distance.Foot(v) >> uu)
    from harness.common import with_preferred
    # the calculator has been used before: a card WITH extra data and a time step
    # (concrete requests; what a plain card contains does not depend on what the calculator was asked earlier)
    calc.fire(shot, U.Foot(3.0 * step_ft), U.Foot(step_ft), True, 0.001)
    with carriers.spy_filter() as spy, with_preferred(distance=PU):
        if mode == 'nostep':
            res = calc.fire(shot, q(R))
        else:
            res = calc.fire(shot, q(R), q(S, sunit or unit), False, tau)
    rows = res.trajectory
    c = len(rows)
    # the integration covered the requested range: the last point fed to the recorder lies beyond it
    # the integration reached the requested range: the last point fed to the recorder lies within one step of it (or beyond)
    ctx.check('integration_reaches_the_range', spy[-1]['p'].x + 1.06 * (step_ft / 2) >= R)
    adv = max((spy[j + 1]['p'].x - spy[j]['p'].x) for j in range(len(spy) - 1)) if len(spy) > 1 else 0.0
    dts = max((spy[j + 1]['t'] - spy[j]['t']) for j in range(len(spy) - 1)) if len(spy) > 1 else 0.0
    d = [r.distance >> U.Foot for r in rows]
    t = [r.time for r in rows]
    # muzzle row
    r0 = rows[0]
    sh = shot.weapon.sight_height >> U.Foot
    import math
    cant = math.radians(cant_deg)
    ctx.check('muzzle_row', r0.time == 0 and (r0.distance >> U.Foot) == 0 and abs((r0.height >> U.Foot) + math.cos(cant) * sh) <= 1e-12
              and abs((r0.windage >> U.Foot) + math.sin(cant) * sh) <= 1e-12
              and abs((r0.velocity >> U.FPS) - (shot.ammo.mv >> U.FPS)) <= 1e-9, info={'cant_deg': cant_deg})
    if mode != 'time':
        # rows sit at multiples 0..c-1; every multiple <= R is present; at most one multiple beyond R, within one integration advance
        for k in range(c):
            ctx.check_eq('row_distance_is_multiple', d[k], k * S, rel=1e-12, abs=1e-9, info={'k': k})
        ctx.check('one_row_per_multiple', (c * S > R) & ((c - 1) * S <= R + step_ft / 2), info={'rows': c})
        ctx.check('at_most_one_beyond', ctx.implies((c - 1) * S > R, (c - 2) * S <= R) if c >= 2 else True)
        if mode == 'nostep':
            ctx.check('default_step_gives_11_rows', c == 11, info={'rows': c})
    else:
        for k in range(c - 1):
            ctx.check('time_step_spacing', t[k + 1] - t[k] <= tau + 2 * dts + 1e-12, info={'k': k})
    for k in range(c - 1):
        ctx.check('strictly_increasing', (d[k + 1] > d[k]) & (t[k + 1] > t[k]) if mode != 'time' else (t[k + 1] > t[k]) & (d[k + 1] >= d[k]),
                  info={'k': k})


def _cfg_fw(tier):
    return [{'kind': k} for k in ('metric_pairs', 'lofted_default_step')]


@harness('C03.float_witness', 'C03', configs=_cfg_fw, functions=FUNCS, must_reach=['check:row_count_on_concrete_cards'],
         bounds='TEST STRENGTH (concrete runs; the symbolic harnesses model the record arithmetic over the reals, so defects that need the floating point rounding of '
                'the ACCUMULATED record distance are invisible to them): carrier A at the default 0.5 ft step on 14 range/step pairs in m, km, yd, ft that divide evenly; '
                'carrier D (300 fps) lofted at 45 and 60 deg, default-step cards for every range 80..160 yd: row count and last row at the range')
def c03_float_witness(ctx, kind):
    p = pybc()
    U = p.Unit
    if kind == 'metric_pairs':
        calc, shot = carriers.make('A', 0.5, 'none')
        pairs = [(U.Meter, 1000, 100), (U.Meter, 500, 50), (U.Meter, 900, 100), (U.Kilometer, 2, 0.1), (U.Meter, 800, 100), (U.Meter, 300, 30),
                 (U.Yard, 1000, 100), (U.Yard, 700, 70), (U.Foot, 900, 90), (U.Foot, 1000, 100), (U.Meter, 70, 7), (U.Meter, 1100, 110), (U.Kilometer, 1.2, 0.1), (U.Yard, 330, 33)]
        for (u, rng, st) in pairs:
            rows = calc.fire(shot, u(rng), u(st)).trajectory
            n = int(round(rng / st)) + 1
            ctx.check('row_count_on_concrete_cards', len(rows) in (n, n + 1) and abs((rows[n - 1].distance >> u) - rng) <= 1e-9 * rng,
                      info={'unit': u.name, 'range': rng, 'step': st, 'rows': len(rows)})
    else:
        for elev in (45.0, 60.0):
            calc, shot = carriers.make('D', 0.5, 'none', relative_deg=elev)
            for yd in range(80, 161):
                rows = calc.fire(shot, U.Yard(yd)).trajectory
                ctx.check('row_count_on_concrete_cards', len(rows) == 11 and abs((rows[-1].distance >> U.Yard) - yd) <= 1e-9 * yd,
                          info={'elevation': elev, 'range_yd': yd, 'rows': len(rows)})
