"""C12 - wind acts by segment, in order of distance, symmetrically and causally.

sock   : real Shot.winds (sort on symbolic keys: forks over every ordering) + real _WindSock driven exactly as _integrate drives it,
         on n winds with SYMBOLIC until-distances (any order, duplicates allowed) and symbolic non-decreasing query positions;
         oracle: the first segment (in sorted order) whose until-distance is > x, zero vector beyond the last.
vector : Wind.vector sign conventions (from the left => +z, tail => +x) with sin/cos of the four cardinal directions.
fire   : carriers with concrete physics and symbolic until-distances (see harness/carriers.py).
"""
import math

from symx.runner import harness
from harness.common import pybc

FUNCS = ['py_ballisticcalc.trajectory_calc._trajectory_calc._WindSock.*', 'py_ballisticcalc.conditions.Shot.winds',
         'py_ballisticcalc.conditions.Wind.vector', 'py_ballisticcalc.conditions.Wind.__init__']


def _tc():
    import py_ballisticcalc.trajectory_calc._trajectory_calc as tc
    return tc


def _cfg_sock(tier):
    out = []
    for n in ([0, 1, 2, 3] if tier == 'quick' else [0, 1, 2, 3, 4]):
        for q in ([n + 2] if tier == 'quick' else [n + 2, n + 3]):
            out.append({'n': n, 'queries': q})
    return out


def _drive(sock, x, state):
    """exactly what _integrate does per step"""
    if x >= sock.next_range:
        state['v'] = sock.vector_for_range(x)
    return state['v']


@harness('C12.sock', 'C12', configs=_cfg_sock, functions=FUNCS, cost=6,
         must_reach=['check:segment_in_force', 'switched', 'beyond_last', 'two_boundaries_in_one_step'],
         bounds='n = 0..3 (quick) / 0..4 (thorough) winds with symbolic until-distances in [0, 1e5] ft in every input order incl. duplicates; '
                'n+2 (n+3) queries at symbolic non-decreasing positions starting at x = 0 (as _integrate issues them)',
         assumptions=['wind vectors are identified by concrete distinct speeds 1..n at direction 0 (the sock only copies the vector)'])
def c12_sock(ctx, n, queries):
    p, tc = pybc(), _tc()
    U = p.Unit
    until = [ctx.real(f'until{i}', 0, 1e5) for i in range(n)]
    winds = [p.Wind(U.FPS(float(i + 1)), U.Radian(0.0), U.Foot(until[i])) for i in range(n)]
    shot = p.Shot(None, None, atmo=_atmo(p), winds=winds)
    got_sorted = shot.winds
    if n == 0:
        # an empty list means no wind: the calculator substitutes one zero-speed wind
        ctx.check('empty_is_no_wind', len(got_sorted) == 1 and (got_sorted[0].velocity >> U.FPS) == 0)
    else:
        keys = [w.until_distance >> U.Foot for w in got_sorted]
        ctx.check('sorted_by_until_distance', ctx.all([keys[i] <= keys[i + 1] for i in range(n - 1)]))
        ctx.check('same_winds', sorted(id(w) for w in got_sorted) == sorted(id(w) for w in winds))
    sock = tc._WindSock(got_sorted)
    state = {'v': sock.current_vector()}
    # oracle segments: (until, speed) sorted by until (ties: any order - a zero-length segment never acts)
    segs = sorted(((until[i], float(i + 1)) for i in range(n)), key=lambda s: s[0]) if n else []
    xs = [0.0] + [ctx.real(f'x{k}', 0, 2e5) for k in range(1, queries)]
    for k in range(1, queries):
        ctx.assume(xs[k] >= xs[k - 1])
    prev_x = None
    for k, x in enumerate(xs):
        v = _drive(sock, x, state)
        want = 0.0
        found = False
        for (u, speed) in segs:
            if u > x:
                want, found = speed, True
                break
        if n and not found:
            ctx.reach('beyond_last')
        if k and n and not ctx.same_term(v.x, xs and state.get('prev_vx', v.x)):
            ctx.reach('switched')
        state['prev_vx'] = v.x
        if prev_x is not None and n >= 2:
            crossed = sum(1 for (u, _) in segs if (u > prev_x) and (u <= x))
            if crossed >= 2:
                ctx.reach('two_boundaries_in_one_step')
        prev_x = x
        ctx.check('segment_in_force', v.x == want, info={'query': k, 'n': n})
        ctx.check('no_vertical_or_cross_component', v.y == 0 and v.z == 0)


_ATMO = []


def _atmo(p):
    if not _ATMO:
        _ATMO.append(p.Atmo.icao())
    return _ATMO[0]


@harness('C12.vector', 'C12', functions=FUNCS, must_reach=['check:from_left_pushes_right', 'check:tail_wind_pushes_downrange'],
         bounds='Wind.vector for all speeds >= 0 at the four cardinal directions (sin/cos evaluated by libm at the concrete angles, 1e-12) and, '
                'for arbitrary directions, the components speed*cos, 0, speed*sin',
         stubs=['sin/cos summarised for the symbolic direction (s^2 + c^2 = 1)'])
def c12_vector(ctx):
    p = pybc()
    U = p.Unit
    s = ctx.real('speed_fps', 0, 1e3)
    for deg, (wx, wz) in {0.0: (1, 0), 90.0: (0, 1), 180.0: (-1, 0), 270.0: (0, -1)}.items():
        v = p.Wind(U.FPS(s), U.Degree(deg)).vector
        ctx.check_eq('cardinal', v.x, s * wx, abs=1e-9, info={'deg': deg})
        ctx.check_eq('cardinal', v.z, s * wz, abs=1e-9, info={'deg': deg})
        ctx.check('no_vertical_component', v.y == 0)
    left = p.Wind(U.FPS(s), U.Degree(90.0)).vector
    ctx.check('from_left_pushes_right', ctx.implies(s > 0, left.z > 0))
    tail = p.Wind(U.FPS(s), U.Degree(0.0)).vector
    ctx.check('tail_wind_pushes_downrange', ctx.implies(s > 0, tail.x > 0))
    d = ctx.real('direction_rad', -6.28, 6.28)
    from symx.stubs import symmath as M
    v = p.Wind(U.FPS(s), U.Radian(d)).vector
    ctx.check_eq('components', v.x, s * M.cos(d))
    ctx.check_eq('components', v.z, s * M.sin(d))
    # mirroring the direction left-right (d -> -d) negates the cross component and keeps the range component
    m = p.Wind(U.FPS(s), U.Radian(-d)).vector
    ctx.check_eq('mirror', m.z, -v.z)
    ctx.check_eq('mirror', m.x, v.x)
    # zero speed is no wind
    z = p.Wind(U.FPS(0.0), U.Radian(d)).vector
    ctx.check('zero_speed_is_zero_vector', z.x == 0 and z.y == 0 and z.z == 0)
