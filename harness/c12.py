"""C12 - wind acts by segment, in order of distance, symmetrically and causally.

sock   : real Shot.winds (sort on symbolic keys: forks over every ordering) + real _WindSock driven exactly as _integrate drives it,
         on n winds with SYMBOLIC until-distances (any order, duplicates allowed) and symbolic non-decreasing query positions;
         oracle: the first segment (in sorted order) whose until-distance is > x, zero vector beyond the last.
vector : Wind.vector sign conventions (from the left => +z, tail => +x) with sin/cos of the four cardinal directions.
fire   : carriers with concrete physics and symbolic until-distances (see harness/carriers.py).
"""
import math

from symx.runner import harness
from harness.common import pybc

FUNCS = ['py_ballisticcalc.trajectory_calc._trajectory_calc._WindSock.*', 'py_ballisticcalc.conditions.Shot.winds',
         'py_ballisticcalc.conditions.Wind.vector', 'py_ballisticcalc.conditions.Wind.__init__']


def _tc():
    import py_ballisticcalc.trajectory_calc._trajectory_calc as tc
    return tc


def _cfg_sock(tier):
    out = []
    for n in ([0, 1, 2, 3] if tier == 'quick' else [0, 1, 2, 3, 4]):
        for q in ([n + 2] if tier == 'quick' else [n + 2, n + 3]):
            out.append({'n': n, 'queries': q})
            if n >= 2:
                out.append({'n': n, 'queries': q, 'calm': 1})      # the second wind given is a zero-speed (calm) segment
                # two of the winds given are the SAME wind (equal speed and direction) over different stretches; with n = 3 in both
                # arrangements (the equal pair adjacent in the input or not - after sorting they may or may not be neighbours)
                if n <= 3:          # (n = 4 forks 4! input orders: these variants would double the thorough tier's longest units)
                    out.append({'n': n, 'queries': q, 'same': (0, 1)})
                if n == 3:
                    out.append({'n': n, 'queries': q, 'same': (0, 2)})
                # until-distances that carry DIFFERENT unit labels: assigned to the public field after construction, or each wind built under another preferred unit
                out.append({'n': n, 'queries': q, 'labels': ('assigned', ['Meter', 'Yard', 'Foot', 'Kilometer'][:n])})
                out.append({'n': n, 'queries': q, 'labels': ('preferred', ['Yard', 'Meter', 'Inch', 'Foot'][:n])})
                # until-distances given as BARE numbers (read in the preferred unit; 0 included: a segment of no extent blows nowhere)
                if n <= 3:
                    out.append({'n': n, 'queries': q, 'labels': ('bare', ['Foot'] * n)})
    return out


def _drive(sock, x, state):
    """exactly what _integrate does per step"""
    if x >= sock.next_range:
        state['v'] = sock.vector_for_range(x)
    return state['v']


@harness('C12.sock', 'C12', configs=_cfg_sock, functions=FUNCS, cost=6,
         must_reach=['check:segment_in_force', 'switched', 'beyond_last', 'two_boundaries_in_one_step'],
         bounds='n = 0..3 (quick) / 0..4 (thorough) winds with symbolic until-distances in [0, 1e5] ft in every input order incl. duplicates; '
                'n+2 (n+3) queries at symbolic non-decreasing positions starting at x = 0 (as _integrate issues them)',
         assumptions=['wind vectors are identified by concrete distinct speeds 1..n at direction 0 (the sock only copies the vector); variants: the second wind a calm (zero-speed) segment; two of the winds equal (same speed and direction, different stretches); until-distances carrying different unit labels (assigned after construction / each wind built under another preferred unit)'])
def c12_sock(ctx, n, queries, calm=None, labels=None, same=None):
    p, tc = pybc(), _tc()
    U = p.Unit
    until = [ctx.real(f'until{i}', 0, 1e5) for i in range(n)]
    speed = lambda i: 0.0 if i == calm else (float(same[0] + 1) if same is not None and i == same[1] else float(i + 1))
    if labels is None:
        winds = [p.Wind(U.FPS(speed(i)), U.Radian(0.0), U.Foot(until[i])) for i in range(n)]
    elif labels[0] == 'assigned':
        winds = [p.Wind(U.FPS(speed(i)), U.Radian(0.0), U.Foot(until[i])) for i in range(n)]
        for i, w in enumerate(winds):
            LU = getattr(U, labels[1][i])
            w.until_distance = LU(U.Foot(until[i]) >> LU)
    elif labels[0] == 'bare':
        from harness.common import with_preferred
        with with_preferred(distance=U.Foot):
            winds = [p.Wind(U.FPS(speed(i)), U.Radian(0.0), until[i]) for i in range(n)]
    else:
        from harness.common import with_preferred
        winds = []
        for i in range(n):
            LU = getattr(U, labels[1][i])
            with with_preferred(distance=LU):
                winds.append(p.Wind(U.FPS(speed(i)), U.Radian(0.0), U.Foot(until[i])))
    if (n + queries) % 2:
        shot = p.Shot(None, None, atmo=_atmo(p), winds=winds)
    else:
        shot = p.Shot(None, None, atmo=_atmo(p))
        shot.winds = winds                      # through the property setter
    got_sorted = shot.winds
    if n == 0:
        # an empty list means no wind: the calculator substitutes one zero-speed wind
        ctx.check('empty_is_no_wind', len(got_sorted) == 1 and (got_sorted[0].velocity >> U.FPS) == 0)
    else:
        keys = [w.until_distance >> U.Foot for w in got_sorted]
        ctx.check('sorted_by_until_distance', ctx.all([keys[i] <= keys[i + 1] for i in range(n - 1)]))
        ctx.check('same_winds', sorted(id(w) for w in got_sorted) == sorted(id(w) for w in winds))
    sock = tc._WindSock(got_sorted)
    state = {'v': sock.current_vector()}
    # oracle segments: (until, speed) sorted by until (ties: any order - a zero-length segment never acts)
    segs = sorted(((until[i], speed(i)) for i in range(n)), key=lambda s: s[0]) if n else []
    xs = [0.0] + [ctx.real(f'x{k}', 0, 2e5) for k in range(1, queries)]
    for k in range(1, queries):
        ctx.assume(xs[k] >= xs[k - 1])
    prev_x = None
    for k, x in enumerate(xs):
        v = _drive(sock, x, state)
        want = 0.0
        found = False
        for (u, speed) in segs:
            if u > x:
                want, found = speed, True
                break
        if n and not found:
            ctx.reach('beyond_last')
        if k and n and not ctx.same_term(v.x, xs and state.get('prev_vx', v.x)):
            ctx.reach('switched')
        state['prev_vx'] = v.x
        if prev_x is not None and n >= 2:
            crossed = sum(1 for (u, _) in segs if (u > prev_x) and (u <= x))
            if crossed >= 2:
                ctx.reach('two_boundaries_in_one_step')
        prev_x = x
        ctx.check('segment_in_force', v.x == want, info={'query': k, 'n': n})
        ctx.check('no_vertical_or_cross_component', v.y == 0 and v.z == 0)


_ATMO = []


def _atmo(p):
    if not _ATMO:
        _ATMO.append(p.Atmo.icao())
    return _ATMO[0]


@harness('C12.vector', 'C12', functions=FUNCS, must_reach=['check:from_left_pushes_right', 'check:tail_wind_pushes_downrange'],
         bounds='Wind.vector for all speeds >= 0 at the four cardinal directions (sin/cos evaluated by libm at the concrete angles, 1e-12) and, '
                'for arbitrary directions, the components speed*cos, 0, speed*sin',
         stubs=['sin/cos summarised for the symbolic direction (s^2 + c^2 = 1)'])
def c12_vector(ctx):
    p = pybc()
    U = p.Unit
    s = ctx.real('speed_fps', 0, 1e3)
    for deg, (wx, wz) in {0.0: (1, 0), 90.0: (0, 1), 180.0: (-1, 0), 270.0: (0, -1)}.items():
        v = p.Wind(U.FPS(s), U.Degree(deg)).vector
        ctx.check_eq('cardinal', v.x, s * wx, abs=1e-9, info={'deg': deg})
        ctx.check_eq('cardinal', v.z, s * wz, abs=1e-9, info={'deg': deg})
        ctx.check('no_vertical_component', v.y == 0)
    left = p.Wind(U.FPS(s), U.Degree(90.0)).vector
    ctx.check('from_left_pushes_right', ctx.implies(s > 0, left.z > 0))
    tail = p.Wind(U.FPS(s), U.Degree(0.0)).vector
    ctx.check('tail_wind_pushes_downrange', ctx.implies(s > 0, tail.x > 0))
    d = ctx.real('direction_rad', -6.28, 6.28)
    from symx.stubs import symmath as M
    v = p.Wind(U.FPS(s), U.Radian(d)).vector
    ctx.check_eq('components', v.x, s * M.cos(d))
    ctx.check_eq('components', v.z, s * M.sin(d))
    # mirroring the direction left-right (d -> -d) negates the cross component and keeps the range component
    m = p.Wind(U.FPS(s), U.Radian(-d)).vector
    ctx.check_eq('mirror', m.z, -v.z)
    ctx.check_eq('mirror', m.x, v.x)
    # a Wind edited in place after it was used acts with its new values (mirroring in place, calming in place)
    w = p.Wind(U.FPS(s), U.Radian(d))
    first = w.vector
    s2 = ctx.real('second_speed_fps', 0, 1e3)
    w.velocity = U.FPS(s2)
    w.direction_from = U.Radian(-d)
    ctx.check_eq('edited_wind_acts_with_its_new_values', w.vector.z, -(s2 * M.sin(d)))
    ctx.check_eq('edited_wind_acts_with_its_new_values', w.vector.x, s2 * M.cos(d))
    # the calm wind a wind-less shot reports is its own: editing it does not put wind on another wind-less shot
    shot_a = p.Shot(None, None, atmo=_atmo(p))
    wa = shot_a.winds[0]
    wa.velocity = U.FPS(s + 1.0)
    wa.direction_from = U.Radian(1.0)
    for mk in (lambda: p.Shot(None, None, atmo=_atmo(p)), lambda: p.Shot(None, None, atmo=_atmo(p), winds=[]), lambda: p.Shot(None, None, atmo=_atmo(p), winds=None)):
        wb = mk().winds
        ctx.check('windless_shots_do_not_share_a_wind', len(wb) == 1 and (wb[0].velocity >> U.FPS) == 0 and wb[0] is not wa)
    # zero speed is no wind
    z = p.Wind(U.FPS(0.0), U.Radian(d)).vector
    ctx.check('zero_speed_is_zero_vector', z.x == 0 and z.y == 0 and z.z == 0)


# ---------------------------------------------------------------------------------------------------------------------------------
# carriers: the real Calculator.fire with concrete wind vectors and SYMBOLIC until-distances

from harness import carriers  # noqa: E402


def _cfg_fire(tier):
    out = []
    K = 12 if tier == 'quick' else 24
    plan = [('C', 100.0, dict(relative_deg=2.0)), ('B', 60.0, dict()), ('A', 100.0, dict(look_deg=25.0))] if tier == 'quick' else \
        [('C', 100.0, dict(relative_deg=2.0)), ('B', 60.0, dict()), ('A', 100.0, dict(look_deg=25.0)), ('A', 100.0, dict()), ('C', 100.0, dict(relative_deg=30.0)), ('A', 30.0, dict(look_deg=-15.0))]
    for (c, step, kw) in plan:
        rmax = K * step / 2 * 0.9
        for n in ((1, 2) if tier == 'quick' else (1, 2, 3)):
            shards = 3 if tier == 'quick' else 6
            for i in range(shards):
                out.append({'carrier': c, 'step_ft': step, 'kw': kw, 'n': n, 'rmax': rmax, 'ulo': rmax * i / shards, 'uhi': rmax * (i + 1) / shards})
    return out


SEGS = [(10.0, 1.2), (6.0, -2.0), (14.0, 0.4)]       # (mph, direction from, radians)


@harness('C12.fire', 'C12', configs=_cfg_fire, functions=FUNCS + ['py_ballisticcalc.trajectory_calc._trajectory_calc.TrajectoryCalc._integrate'],
         cost=15, engine_opts={'div_check': False, 'nl_axioms_in_feasibility': False},
         must_reach=['check:order_of_input_does_not_matter', 'check:each_step_uses_the_segment_in_force', 'check:later_segments_do_not_change_earlier_rows',
                     'check:mirror_negates_windage_only', 'check:zero_speed_is_no_wind'],
         bounds='carriers C (twist 0), B, A with a 25 deg sight line [thorough: + level A, inclined C, finer downhill A] with concrete wind vectors per segment and SYMBOLIC until-distances (n = 2; thorough 2..3) '
                'in any order: one cell per assignment of switch points to integration steps; horizon K <= 12 (quick) / 24 (thorough) steps',
         outside=['"head and tail winds change drop and time of flight in opposite senses" beyond one step: compared on three concrete carrier runs (test strength)'])
def c12_fire(ctx, carrier, step_ft, kw, n, rmax, ulo, uhi):
    p, tc = pybc(), _tc()
    U = p.Unit
    u = [ctx.real('until0', ulo, uhi)] + [ctx.real(f'until{i}', 0, rmax) for i in range(1, n)]

    def winds(order, segs=SEGS, mirror=False, speed_scale=1.0):
        return [p.Wind(U.MPH(segs[i][0] * speed_scale), U.Radian(-segs[i][1] if mirror else segs[i][1]), U.Foot(u[i])) for i in order]
    R, S = U.Foot(rmax), U.Foot(step_ft)

    used = []

    def run(ws, spy_sock=False, reuse=False):
        calc, shot = carriers.make(carrier, step_ft, ws, **kw)
        if reuse:
            calc = used[0]           # the calculator of the first run, with a newly built (value-equal) shot and wind list
        used.append(calc)
        calls = []
        orig = tc._WindSock.vector_for_range

        def vfr(self, x):
            v = orig(self, x)
            calls.append((x, v))
            return v
        tc._WindSock.vector_for_range = vfr
        try:
            with carriers.spy_filter() as spy:
                rows = calc.fire(shot, R, S).trajectory
        finally:
            tc._WindSock.vector_for_range = orig
        return rows, spy, calls, shot

    base_rows, spy, calls, shot = run(winds(range(n)))
    # (0) the same winds again on the calculator that has just flown through them: nothing is left over from the first shot
    again_rows, _, _, _ = run(winds(range(n)), reuse=True)
    ctx.check('same_winds_again_on_a_used_calculator', _rows_same(base_rows, again_rows))
    # (a) input order
    rev_rows, _, _, _ = run(winds(list(reversed(range(n)))))
    distinct = ctx.all([u[i] != u[j] for i in range(n) for j in range(i)])
    # (with equal until-distances "the order of their until-distance" does not determine which of the tied winds acts: the stable sort keeps
    #  the input order; ties are excluded from THIS obligation only)
    ctx.check('order_of_input_does_not_matter', ctx.implies(distinct, _rows_same(base_rows, rev_rows)))
    # (b) segment in force at every integration step: the sock's answers vs the oracle
    vecs = [p.Wind(U.MPH(SEGS[i][0]), U.Radian(SEGS[i][1])).vector for i in range(n)]
    segs = sorted(((u[i], i) for i in range(n)), key=lambda t: t[0])
    first_vec = shot.winds[0].vector if n else None
    current = tuple(first_vec)
    ci = 0
    ok = True
    for s in spy:
        x = s['p'].x
        while ci < len(calls) and calls[ci][0] <= x:
            current = tuple(calls[ci][1])
            ci += 1
        want = (0.0, 0.0, 0.0)
        for (ui, i) in segs:
            if ui > x:
                want = tuple(vecs[i])
                break
        ok = ok and (current == want)
    ctx.check('each_step_uses_the_segment_in_force', ok)
    # (c) causality: replacing every segment after the first-ending one leaves the rows up to its end unchanged
    other = [SEGS[0]] + [(25.0, 2.5)] * (n - 1)
    first_i = segs[0][1]
    alt_segs = [SEGS[i] if i == first_i else (25.0, 2.5) for i in range(n)]
    alt_rows, _, _, _ = run(winds(range(n), segs=alt_segs))
    umin = segs[0][0]
    for k in range(min(len(base_rows), len(alt_rows))):
        d = base_rows[k].distance >> U.Foot
        same = _rows_same([base_rows[k]], [alt_rows[k]])
        ctx.check('later_segments_do_not_change_earlier_rows', ctx.implies(d <= umin, same), info={'row': k})
    # (d) zero speed = no wind
    zero_rows, _, _, _ = run(winds(range(n), speed_scale=0.0))
    none_rows, _, _, _ = run([])
    ctx.check('zero_speed_is_no_wind', _rows_same(zero_rows, none_rows))
    # (e) mirror left-right: windage negated (this carrier has no spin drift), everything else identical
    if (shot.weapon.twist >> U.Inch) == 0:
        mir_rows, _, _, _ = run(winds(range(n), mirror=True))
        ok = len(mir_rows) == len(base_rows)
        for a, b in zip(base_rows, mir_rows):
            for name in a._fields:
                x, y = getattr(a, name), getattr(b, name)
                xv, yv = getattr(x, 'raw_value', x), getattr(y, 'raw_value', y)
                if name in ('windage', 'windage_adj'):
                    ok = ok and (xv == -yv)
                else:
                    ok = ok and (xv == yv)
        ctx.check('mirror_negates_windage_only', ok)
    else:
        ctx.reach('check:mirror_negates_windage_only')


def _rows_same(a, b):
    if len(a) != len(b):
        return False
    for ra, rb in zip(a, b):
        for x, y in zip(ra, rb):
            if getattr(x, 'raw_value', x) != getattr(y, 'raw_value', y):
                return False
    return True


@harness('C12.headtail', 'C12', configs=lambda tier: [{'carrier': c, 'step_ft': s} for (c, s) in (('A', 0.5), ('B', 0.5))], functions=FUNCS,
         must_reach=['check:head_and_tail_wind_act_in_opposite_senses', 'check:wind_from_left_deflects_right'],
         bounds='TEST STRENGTH: three concrete runs (no wind, 10 mph head, 10 mph tail) and a wind from the left per carrier at the default step: time of flight and drop at the last row')
def c12_headtail(ctx, carrier, step_ft):
    p = pybc()
    U = p.Unit
    res = {}
    for w in ('none', 'head', 'tail', 'left'):
        calc, shot = carriers.make(carrier, step_ft, w)
        res[w] = calc.fire(shot, U.Yard(500), U.Yard(100)).trajectory[-1]
    ctx.check('head_and_tail_wind_act_in_opposite_senses',
              res['head'].time > res['none'].time > res['tail'].time and
              (res['head'].height >> U.Foot) < (res['none'].height >> U.Foot) < (res['tail'].height >> U.Foot))
    ctx.check('wind_from_left_deflects_right', (res['left'].windage >> U.Foot) > (res['none'].windage >> U.Foot))
