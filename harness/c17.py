"""C17 - powder temperature sensitivity is linear, anchored and reproduces calibration.

Real functions driven: Ammo.__init__, Ammo.get_velocity_for_temp, Ammo.calc_powder_sens,
TrajectoryCalc._init_trajectory (muzzle velocity used by the solver), Atmo.__init__ (powder_temp default).
All magnitudes symbolic; loop-free, so the result is for all values in the stated ranges.
"""
from symx.runner import harness
from harness.common import pybc, mkrow, TEMP_UNITS, VEL_UNITS, c_of, mps_of, with_preferred

FUNCS = ['py_ballisticcalc.munition.Ammo.get_velocity_for_temp', 'py_ballisticcalc.munition.Ammo.calc_powder_sens',
         'py_ballisticcalc.trajectory_calc._trajectory_calc.TrajectoryCalc._init_trajectory']


def _cfg_velocity(tier):
    out = []
    for tu in TEMP_UNITS:
        for bare in (False, True):
            for use in (True, False):
                out.append({'tunit': tu, 'bare': bare, 'use': use})
    return out


def _inputs(ctx):
    mv = ctx.real('mv', 1e-3, 1e5)           # stated velocity, m/s
    t0 = ctx.real('t0', -200, 1000)          # stated powder temperature, deg C
    return mv, t0


@harness('C17.velocity', 'C17', configs=_cfg_velocity, functions=FUNCS, must_reach=['check:linear'],
         bounds='loop-free: all mv in [1e-3,1e5] m/s, T0 in [-200,1000] C, modifier in [-10,10], query T in [-1000,5000] unit degrees; '
                '4 temperature units x bare/explicit x sensitivity on/off',
         assumptions=['floats modelled as reals (2.3): equalities are exact over the reals, replay tolerance 1e-9 relative'])
def c17_velocity(ctx, tunit, bare, use):
    p = pybc()
    mv, t0 = _inputs(ctx)
    mod = ctx.real('modifier', -10, 10)
    T = ctx.real('T', -1000, 5000)
    dm = p.DragModel(0.3, p.TableG7)
    ammo = p.Ammo(dm, p.Velocity.MPS(mv), p.Temperature.Celsius(t0), mod, use)
    u = getattr(p.Unit, tunit)
    with with_preferred(temperature=u):
        v = ammo.get_velocity_for_temp(T if bare else u(T))
    got = v >> p.Velocity.MPS
    Tc = c_of(ctx, T, tunit)
    if not use:
        ctx.check_eq('disabled_is_stated', got, mv)
        ctx.check('disabled_same_object', v is ammo.mv)
    else:
        want = mv * (1 + mod * (Tc - t0) / 15)
        ctx.check_eq('linear', got, want, rel=1e-9, abs=1e-6)
    # anchored: at the stated temperature the stated velocity
    v0 = ammo.get_velocity_for_temp(p.Temperature.Celsius(t0)) >> p.Velocity.MPS
    ctx.check_eq('anchored', v0, mv, rel=1e-9)


def _cfg_calib(tier):
    out = []
    for vu in VEL_UNITS:
        for tu in TEMP_UNITS:
            if tier == 'quick' and (vu, tu) not in (('MPS', 'Celsius'), ('FPS', 'Fahrenheit'), ('KMH', 'Kelvin'), ('KT', 'Rankin'), ('MPH', 'Celsius')):
                continue
            for bare in (False, True):
                out.append({'vunit': vu, 'tunit': tu, 'bare': bare})
    return out


@harness('C17.calibration', 'C17', configs=_cfg_calib, functions=FUNCS,
         must_reach=['check:reproduces_second_measurement', 'faster_warmer', 'slower_colder'],
         bounds='loop-free: all baseline/second measurements with the same sign of dv and dT (either one faster); '
                'second measurement in every velocity x temperature unit (quick: 5 pairs), bare and explicit',
         outside=['pairs with opposite signs of dv and dT (inverse sensitivity, which the unsigned modifier cannot represent)'])
def c17_calibration(ctx, vunit, tunit, bare):
    p = pybc()
    mv, t0 = _inputs(ctx)
    v1 = ctx.real('v1', 1e-3, 1e5)           # second measurement, m/s
    t1 = ctx.real('t1', -200, 1000)          # deg C
    ctx.assume((v1 > mv) & (t1 > t0) | (v1 < mv) & (t1 < t0))
    dm = p.DragModel(0.3, p.TableG7)
    ammo = p.Ammo(dm, p.Velocity.MPS(mv), p.Temperature.Celsius(t0), 0, True)
    vu, tu = getattr(p.Unit, vunit), getattr(p.Unit, tunit)
    # the same second measurement expressed in the configured units
    v1_u = p.Velocity.MPS(v1) >> vu
    t1_u = p.Temperature.Celsius(t1) >> tu
    with with_preferred(velocity=vu, temperature=tu):
        m = ammo.calc_powder_sens(v1_u if bare else vu(v1_u), t1_u if bare else tu(t1_u))
    ctx.check('modifier_stored', ctx.same_term(m, ammo.temp_modifier))
    ctx.check('modifier_positive', m > 0)
    got = ammo.get_velocity_for_temp(p.Temperature.Celsius(t1)) >> p.Velocity.MPS
    if v1 > mv:
        ctx.reach('faster_warmer')
    else:
        ctx.reach('slower_colder')
    ctx.check_eq('reproduces_second_measurement', got, v1, rel=1e-9, abs=1e-6)
    back = ammo.get_velocity_for_temp(p.Temperature.Celsius(t0)) >> p.Velocity.MPS
    ctx.check_eq('still_anchored', back, mv, rel=1e-9, abs=1e-6)


@harness('C17.rejects', 'C17', functions=FUNCS, must_reach=['check:same_measurement_rejected'],
         bounds='loop-free: second measurement with equal velocity or equal temperature')
def c17_rejects(ctx):
    p = pybc()
    mv, t0 = _inputs(ctx)
    v1 = ctx.real('v1', 1e-3, 1e5)
    t1 = ctx.real('t1', -200, 1000)
    ctx.assume((v1 == mv) | (t1 == t0))
    ammo = p.Ammo(p.DragModel(0.3, p.TableG7), p.Velocity.MPS(mv), p.Temperature.Celsius(t0), 0.5, True)
    before = ammo.temp_modifier
    try:
        ammo.calc_powder_sens(p.Velocity.MPS(v1), p.Temperature.Celsius(t1))
        raised = False
    except ValueError:
        raised = True
    ctx.check('same_measurement_rejected', raised)
    ctx.check('modifier_untouched_on_error', ctx.same_term(before, ammo.temp_modifier))


def _cfg_launch(tier):
    return [{'powder_given': g, 'use': u} for g in (True, False) for u in (True, False)] + \
        [{'powder_given': True, 'use': True, 'bare_unit': tu} for tu in TEMP_UNITS] + \
        [{'powder_given': False, 'use': True, 'vacuum': True}]      # powder temperature as a bare number (0 included); a Vacuum built with an air temperature


@harness('C17.launch', 'C17', configs=_cfg_launch, functions=FUNCS, must_reach=['check:launch_velocity'],
         bounds='loop-free: all air / powder temperatures in [-60,60] (C, or the bare number in each preferred temperature unit, 0 included); powder temperature given as quantity / bare number / defaulted; sensitivity on/off',
         stubs=['math.sqrt/exp/pow summarised inside Atmo (not part of the obligation)'],
         engine_opts={'div_check': False})
def c17_launch(ctx, powder_given, use, bare_unit=None, vacuum=False):
    p = pybc()
    from py_ballisticcalc.trajectory_calc._trajectory_calc import TrajectoryCalc
    from py_ballisticcalc.interface_config import create_interface_config
    mv, t0 = _inputs(ctx)
    mod = ctx.real('modifier', -10, 10)
    air = ctx.real('air_c', -60, 60)
    pw = ctx.real('powder_c', -60, 60)
    if vacuum:
        atmo = p.Vacuum(p.Distance.Foot(0), p.Temperature.Celsius(air))       # no air, but the powder is as warm as the surroundings given
    elif bare_unit is None:
        atmo = p.Atmo(p.Distance.Foot(0), p.Pressure.InHg(29.92), p.Temperature.Celsius(air), 0.0,
                      p.Temperature.Celsius(pw) if powder_given else None)
    else:
        bu = getattr(p.Unit, bare_unit)
        with with_preferred(temperature=bu):
            # `pw` is the bare number in the preferred unit; its Celsius value is the oracle's
            atmo = p.Atmo(p.Distance.Foot(0), p.Pressure.InHg(29.92), p.Temperature.Celsius(air), 0.0, pw)
        pw = c_of(ctx, pw, bare_unit)
    ammo = p.Ammo(p.DragModel(0.3, p.TableG7), p.Velocity.MPS(mv), p.Temperature.Celsius(t0), mod, use)
    shot = p.Shot(p.Weapon(), ammo, atmo=atmo)
    calc = TrajectoryCalc(create_interface_config(None))
    calc._init_trajectory(shot)
    eff = pw if powder_given else air
    want = mv * (1 + mod * (eff - t0) / 15) if use else mv
    ctx.check_eq('launch_velocity', calc.muzzle_velocity, want * 3.2808399, rel=1e-9, abs=1e-5)
    # every public entry point that integrates launches with that velocity: the velocity in force when the integration is entered
    # (the integration itself is replaced by a recorder that answers with a hit, so that a zero search ends at once)
    seen = []

    def recorder(shot_info, maximum_range, record_step, filter_flags, time_step=0.0):
        seen.append(calc.muzzle_velocity)
        rows = [mkrow(p, time=0.0, dist_ft=0.0, height_ft=-calc.sight_height), mkrow(p, time=1.0, dist_ft=maximum_range, height_ft=0.0)]
        return rows if filter_flags & p.TrajFlag.RANGE else rows[-1:]
    calc._integrate = recorder
    for entry in ('trajectory', 'zero_angle'):
        del seen[:]
        if entry == 'trajectory':
            calc.trajectory(shot, p.Distance.Foot(300.0), p.Distance.Foot(100.0))
        else:
            calc.zero_angle(shot, p.Distance.Foot(300.0))
        ctx.check('launch_velocity', len(seen) >= 1, info={'entry': entry, 'integrations': len(seen)})
        for v in seen:
            ctx.check_eq('launch_velocity', v, want * 3.2808399, rel=1e-9, abs=1e-5, info={'entry': entry})


@harness('C17.reuse', 'C17', functions=FUNCS, must_reach=['check:launch_velocity_after_in_place_changes'], engine_opts={'div_check': False},
         bounds='one solver object and the SAME Ammo / Atmo / Shot objects: _init_trajectory, then the ammunition is changed in place (sensitivity switched on, calibrated with a symbolic '
                'second measurement, stated velocity reassigned), then _init_trajectory again: the launch velocity is the one for the current state',
         stubs=['sqrt/exp/pow summarised inside Atmo'])
def c17_reuse(ctx):
    p = pybc()
    from py_ballisticcalc.trajectory_calc._trajectory_calc import TrajectoryCalc
    from py_ballisticcalc.interface_config import create_interface_config
    mv, t0 = _inputs(ctx)
    v1 = ctx.real('v1', 1e-3, 1e5)
    t1 = ctx.real('t1', -200, 1000)
    ctx.assume((v1 > mv) & (t1 > t0) | (v1 < mv) & (t1 < t0))
    air = ctx.real('air_c', -60, 60)
    atmo = p.Atmo(p.Distance.Foot(0), p.Pressure.InHg(29.92), p.Temperature.Celsius(air), 0.0)
    ammo = p.Ammo(p.DragModel(0.3, p.TableG7), p.Velocity.MPS(mv), p.Temperature.Celsius(t0), 0, False)
    shot = p.Shot(p.Weapon(), ammo, atmo=atmo)
    calc = TrajectoryCalc(create_interface_config(None))
    calc._init_trajectory(shot)
    ctx.check_eq('launch_velocity_after_in_place_changes', calc.muzzle_velocity, mv * 3.2808399, rel=1e-9, abs=1e-5, info={'state': 'initial'})
    ammo.calc_powder_sens(p.Velocity.MPS(v1), p.Temperature.Celsius(t1))
    ammo.use_powder_sensitivity = True
    calc._init_trajectory(shot)
    want = mv * (1 + ammo.temp_modifier * (air - t0) / 15)
    ctx.check_eq('launch_velocity_after_in_place_changes', calc.muzzle_velocity, want * 3.2808399, rel=1e-9, abs=1e-5, info={'state': 'calibrated + enabled'})
    mv2 = ctx.real('mv2', 1e-3, 1e5)
    ammo.mv = p.Velocity.MPS(mv2)
    # the stated velocity is re-stated while the calibrated sensitivity stays in force: the line is anchored at the NEW stated velocity
    # and its slope is modifier x NEW stated velocity / 15 C (nothing remembered from the calibration but the modifier)
    Tq = ctx.real('T_query_c', -200, 1000)
    want2 = mv2 * (1 + ammo.temp_modifier * (Tq - t0) / 15)
    ctx.check_eq('launch_velocity_after_in_place_changes', ammo.get_velocity_for_temp(p.Temperature.Celsius(Tq)) >> p.Velocity.MPS, want2,
                 rel=1e-9, abs=1e-6, info={'state': 'mv reassigned, still enabled: get_velocity_for_temp'})
    calc._init_trajectory(shot)
    want3 = mv2 * (1 + ammo.temp_modifier * (air - t0) / 15)
    ctx.check_eq('launch_velocity_after_in_place_changes', calc.muzzle_velocity, want3 * 3.2808399, rel=1e-9, abs=1e-5, info={'state': 'mv reassigned, still enabled'})
    # ... and the modifier itself re-stated by hand (either sign) on the same object
    mod2 = ctx.real('modifier2', -10, 10)
    ammo.temp_modifier = mod2
    want4 = mv2 * (1 + mod2 * (Tq - t0) / 15)
    ctx.check_eq('launch_velocity_after_in_place_changes', ammo.get_velocity_for_temp(p.Temperature.Celsius(Tq)) >> p.Velocity.MPS, want4,
                 rel=1e-9, abs=1e-6, info={'state': 'modifier reassigned'})
    ammo.use_powder_sensitivity = False
    calc._init_trajectory(shot)
    ctx.check_eq('launch_velocity_after_in_place_changes', calc.muzzle_velocity, mv2 * 3.2808399, rel=1e-9, abs=1e-5, info={'state': 'mv reassigned, disabled'})
