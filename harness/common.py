"""helpers shared by the harnesses (no property logic here)"""
import contextlib
import warnings
from fractions import Fraction as F

from ref import si

TEMP_UNITS = ['Fahrenheit', 'Celsius', 'Kelvin', 'Rankin']
VEL_UNITS = ['MPS', 'KMH', 'FPS', 'MPH', 'KT']
DIST_UNITS = ['Inch', 'Foot', 'Yard', 'Mile', 'NauticalMile', 'Millimeter', 'Centimeter', 'Meter', 'Kilometer', 'Line']
WEIGHT_UNITS = ['Grain', 'Ounce', 'Gram', 'Pound', 'Kilogram', 'Newton']
PRESSURE_UNITS = ['MmHg', 'InHg', 'Bar', 'hPa', 'PSI']
ENERGY_UNITS = ['FootPound', 'Joule']
ANGLE_UNITS = ['Radian', 'Degree', 'MOA', 'Mil', 'MRad', 'Thousandth', 'InchesPer100Yd', 'CmPer100m', 'OClock']
UNITS_BY_DIM = {'Distance': DIST_UNITS, 'Weight': WEIGHT_UNITS, 'Pressure': PRESSURE_UNITS, 'Velocity': VEL_UNITS,
                'Energy': ENERGY_UNITS, 'Angular': ANGLE_UNITS, 'Temperature': TEMP_UNITS}
SLOT_DIM = {'angular': 'Angular', 'distance': 'Distance', 'velocity': 'Velocity', 'pressure': 'Pressure',
            'temperature': 'Temperature', 'diameter': 'Distance', 'length': 'Distance', 'weight': 'Weight',
            'adjustment': 'Angular', 'drop': 'Distance', 'energy': 'Energy', 'ogw': 'Weight',
            'sight_height': 'Distance', 'target_height': 'Distance', 'twist': 'Distance'}

_P = None


def pybc():
    """the package under test, imported from /repo's working tree (sys.path set by check.py)"""
    global _P
    if _P is None:
        with warnings.catch_warnings():
            warnings.simplefilter('ignore')
            import py_ballisticcalc as p
        _P = p
    return _P


def enum_units():
    """units as the real enum declares them, grouped by the dimension class that owns them"""
    p = pybc()
    out = {}
    for cls in (p.Distance, p.Weight, p.Pressure, p.Velocity, p.Energy, p.Angular, p.Temperature):
        seen = []
        for k, v in vars(cls).items():
            if isinstance(v, p.Unit) and v.name not in seen:
                seen.append(v.name)
        out[cls.__name__] = seen
    return out


@contextlib.contextmanager
def with_preferred(**slots):
    p = pybc()
    PU = p.PreferredUnits
    names = list(PU.__dataclass_fields__)
    old = {k: getattr(PU, k) for k in names}
    try:
        for k, v in slots.items():
            if k not in names:
                raise KeyError(k)
            setattr(PU, k, v)
        yield
    finally:
        for k, v in old.items():
            setattr(PU, k, v)


def kelvin_of(ctx, v, unit):
    off, sc = si.TEMP_K[unit]
    return (v + off) * sc


def c_of(ctx, v, unit):
    return kelvin_of(ctx, v, unit) - F(27315, 100)


def mps_of(ctx, v, unit):
    return v * si.SPEED_MPS[unit]


def mkrow(p, time=0.0, dist_ft=0.0, height_ft=0.0, drop_ft=0.0, vel_fps=1000.0, flag=8, mach=1.0, look_ft=None):
    """a real TrajectoryData row with the given (possibly symbolic) columns; other columns concrete"""
    U = p.Unit
    return p.TrajectoryData(time=time, distance=p.Distance.Foot(dist_ft), velocity=p.Velocity.FPS(vel_fps), mach=mach,
                            height=p.Distance.Foot(height_ft), target_drop=p.Distance.Foot(drop_ft),
                            drop_adj=p.Angular.Radian(0.0), windage=p.Distance.Foot(0.0), windage_adj=p.Angular.Radian(0.0),
                            look_distance=p.Distance.Foot(dist_ft if look_ft is None else look_ft), angle=p.Angular.Radian(0.0), density_factor=0.0,
                            drag=0.0, energy=p.Energy.FootPound(0.0), ogw=p.Weight.Pound(0.0), flag=flag)


def index_of(rows, row):
    for i, r in enumerate(rows):
        if r is row:
            return i
    return None
