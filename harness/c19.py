"""C19 - sight click counts are the angular correction divided by the effective click value.

Real functions driven: Sight.__init__, Sight.get_adjustment, Sight._adjust_sfp_reticle_steps,
Sight.get_trajectory_adjustment (row built by the real create_trajectory_row).  Loop-free: all values.
"""
from fractions import Fraction as F

from symx.runner import harness
from harness.common import pybc, enum_units, with_preferred, DIST_UNITS
from harness.c06 import _angle_rad
from ref import si

FUNCS = ['py_ballisticcalc.munition.Sight.__init__', 'py_ballisticcalc.munition.Sight.get_adjustment',
         'py_ballisticcalc.munition.Sight._adjust_sfp_reticle_steps', 'py_ballisticcalc.munition.Sight.get_trajectory_adjustment']
PLANES = ['FFP', 'SFP', 'LWIR']
LINEAR_ANG = [u for u in ['Radian', 'Degree', 'MOA', 'Mil', 'MRad', 'Thousandth', 'OClock']]
TAN_ANG = ['InchesPer100Yd', 'CmPer100m']


def _cfg(tier):
    out = []
    i = 0
    for plane in PLANES:
        for cu in LINEAR_ANG + TAN_ANG:
            for bare in (False, True):
                dus = DIST_UNITS if tier == 'thorough' and plane == 'SFP' else [DIST_UNITS[i % len(DIST_UNITS)]]
                for du in dus:
                    out.append({'plane': plane, 'cunit': cu, 'bare': bare, 'sfunit': du,
                                'tdunit': DIST_UNITS[(i + 3) % len(DIST_UNITS)], 'td_bare': bool(i % 2),
                                'adjunit': (LINEAR_ANG + TAN_ANG)[(i * 2 + 1) % 9]})
                i += 1
    return out


def _inch(v, unit):
    return v * (si.LENGTH_M[unit] / si.INCH)


@harness('C19.clicks', 'C19', configs=_cfg, functions=FUNCS, must_reach=['check:vertical_clicks', 'check:horizontal_clicks'],
         engine_opts={'div_check': False},
         bounds='loop-free: 3 focal planes x 9 click units x bare/explicit click sizes x calibration/target distance units (quick: rotating; '
                'thorough: all calibration units for SFP); all click sizes with angle in (0, 0.5] rad (tangent units: nominal and effective '
                'click <= 1e-3 rad), distances in (0,1e7] inch (target distance for FFP / LWIR: [0,1e7], exactly 0 included), magnification in [0.1,100], corrections of either sign in [-1.5,1.5] rad',
         assumptions=['floats modelled as reals; click-count tolerance 1e-9 relative (tangent-based click units: 1e-6, small-angle)',
                      'effective SFP click below one turn (Angular.to_raw wraps above 2*pi)'],
         stubs=['atan/tan summarised with enclosures x - x^3/3 <= atan x <= x and x <= tan x <= x + x^3/2 (0 <= x <= 0.5)'])
def c19_clicks(ctx, plane, cunit, bare, sfunit, tdunit, td_bare, adjunit='Radian'):
    p = pybc()
    U = p.Unit
    cu = getattr(U, cunit)
    ch, cv = ctx.real('h_click'), ctx.real('v_click')
    ctx.assume((ch > 0) & (cv > 0))
    rad_h, kind = _angle_rad(ctx, ch, cunit)
    rad_v, _ = _angle_rad(ctx, cv, cunit)
    small = 1e-3 if kind == 'tan' else 0.5
    ctx.assume((rad_h <= small) & (rad_v <= small) & (rad_h > 0) & (rad_v > 0))
    sf = ctx.real('calibration', 1e-3, 1e7)
    # FFP / LWIR clicks do not depend on the target distance: every distance including exactly 0 (SFP divides by it: > 0)
    td = ctx.real('target', 1e-3 if plane == 'SFP' else 0, 1e7)
    mag = ctx.real('magnification', 0.1, 100)
    drop = ctx.real('drop_adj', -1.5, 1.5)
    wind = ctx.real('windage_adj', -1.5, 1.5)
    with with_preferred(adjustment=cu, distance=getattr(U, tdunit)):
        if bare:
            s = p.Sight(plane, getattr(U, sfunit)(sf), ch, cv)
        else:
            s = p.Sight(plane, getattr(U, sfunit)(sf), cu(ch), cu(cv))
        tdq = td if td_bare else getattr(U, tdunit)(td)
        # the calibration distance is re-displayed in another unit after construction (display unit only; magnitude unchanged)
        s.scale_factor << getattr(U, DIST_UNITS[(DIST_UNITS.index(sfunit) + 4) % len(DIST_UNITS)])
        if plane == 'SFP':
            k = _inch(sf, sfunit) / _inch(td, tdunit) * mag
            ctx.assume((rad_h * k <= (1e-3 if kind == 'tan' else 6.28)) & (rad_v * k <= (1e-3 if kind == 'tan' else 6.28)))
        elif plane == 'LWIR':
            k = 1 / mag
        else:
            k = 1
        # the corrections are given as quantities displayed in another angular unit (same angle: re-displayed radians)
        AU = getattr(U, adjunit)
        # ANOTHER sight of the same kind with other click sizes, calibrated and asked at the same distances and magnification just before: "for every sight"
        other = p.Sight(plane, getattr(U, sfunit)(sf), cu(ch * 2), cu(cv * 3))
        other.get_adjustment(tdq, U.Radian(drop) << AU, U.Radian(wind) << AU, mag)
        got = s.get_adjustment(tdq, U.Radian(drop) << AU, U.Radian(wind) << AU, mag)
        # ... and the same sight asked again at another distance / magnification and then as before: the same answer
        s.get_adjustment(getattr(U, tdunit)(td * 2), U.Radian(drop) << AU, U.Radian(wind) << AU, mag * 0.5)
        again = s.get_adjustment(tdq, U.Radian(drop) << AU, U.Radian(wind) << AU, mag)
    tol = 1e-6 if kind == 'tan' else 1e-9
    ctx.check_eq('nominal_click_is_given', s.v_click_size.raw_value, rad_v, rel=1e-9)
    want_v = drop / (rad_v * k)
    want_h = wind / (rad_h * k)
    ctx.check_eq('vertical_clicks', got.vertical, want_v, rel=tol, abs=1e-12)
    ctx.check_eq('horizontal_clicks', got.horizontal, want_h, rel=tol, abs=1e-12)
    ctx.check_eq('vertical_clicks', again.vertical, want_v, rel=tol, abs=1e-12, info={'call': 'again'})
    ctx.check_eq('horizontal_clicks', again.horizontal, want_h, rel=tol, abs=1e-12, info={'call': 'again'})
    # sign and linearity follow from the quotient form; stated explicitly:
    ctx.check('sign_kept', ctx.implies(drop > 0, got.vertical > 0) & ctx.implies(drop < 0, got.vertical < 0)
              & ctx.implies(wind > 0, got.horizontal > 0) & ctx.implies(wind < 0, got.horizontal < 0))


def _cfg_row(tier):
    return [{'plane': pl, 'cunit': cu} for pl in PLANES for cu in (['Mil', 'MOA'] if tier == 'quick' else LINEAR_ANG)]


@harness('C19.row', 'C19', configs=_cfg_row, functions=FUNCS, must_reach=['check:row_clicks'],
         engine_opts={'div_check': False},
         bounds='loop-free: corrections taken from a trajectory row built by the real create_trajectory_row on a symbolic state',
         stubs=['atan/tan/cos/atan2/pow summarised'])
def c19_row(ctx, plane, cunit):
    p = pybc()
    U = p.Unit
    from py_ballisticcalc.trajectory_calc._trajectory_calc import create_trajectory_row
    from py_ballisticcalc.vector import Vector
    x = ctx.real('x', 1, 1e5)
    y = ctx.real('y', -1e4, 1e4)
    z = ctx.real('z', -1e4, 1e4)
    cv = ctx.real('click', 1e-3, 10)
    mag = ctx.real('magnification', 0.1, 100)
    look = ctx.real('look', -1.0, 1.0)        # inclined sight line: the row's look_distance differs from its distance
    row = create_trajectory_row(1.0, Vector(x, y, z), Vector(2000.0, 0.0, 0.0), 2000.0, 1116.0, 0.0, look, 1.0, 0.0, 150.0, 8)
    rad, _ = _angle_rad(ctx, cv, cunit)
    k = {'FFP': 1, 'LWIR': 1 / mag, 'SFP': 3600 / (x * 12) * mag}[plane]
    ctx.assume(rad * k <= 6.28)      # effective click below one turn (placed before the code it constrains)
    s = p.Sight(plane, U.Yard(100), getattr(U, cunit)(cv), getattr(U, cunit)(cv))
    got = s.get_trajectory_adjustment(row, mag)
    ref = s.get_adjustment(row.distance, row.drop_adj, row.windage_adj, mag)
    ctx.check_eq('row_clicks', got.vertical, ref.vertical)
    ctx.check_eq('row_clicks', got.horizontal, ref.horizontal)
    ctx.check_eq('row_clicks_oracle', got.vertical, row.drop_adj.raw_value / (rad * k), rel=1e-9, abs=1e-12)
    ctx.check_eq('row_clicks_oracle', got.horizontal, row.windage_adj.raw_value / (rad * k), rel=1e-9, abs=1e-12)


def _cfg_rej(tier):
    return [{'case': c} for c in ('bad_plane', 'sfp_no_scale', 'nonpositive_click', 'nonnumeric_click', 'valid')]


@harness('C19.construction', 'C19', configs=_cfg_rej, functions=FUNCS, must_reach=['check:construction'],
         bounds='focal plane names outside the three; SFP with scale factor None / bare 0; click sizes <= 0 (symbolic, each unit, bare and explicit); '
                'non-numeric click sizes; every valid combination constructs')
def c19_construction(ctx, case):
    p = pybc()
    U = p.Unit
    ok_click = U.Mil(0.1)

    def rejected(f):
        try:
            f()
            return False
        except (ValueError, TypeError, AttributeError):
            return True

    if case == 'bad_plane':
        for name in ('', 'ffp', 'XFP', 'FFP ', 'sfp', 'lwir', None, 1, 'TFP'):
            ctx.check('construction', rejected(lambda: p.Sight(name, U.Yard(100), ok_click, ok_click)), info={'plane': name})
    elif case == 'sfp_no_scale':
        for sf in (None, 0, 0.0):
            ctx.check('construction', rejected(lambda: p.Sight('SFP', sf, ok_click, ok_click)), info={'scale_factor': repr(sf)})
    elif case == 'nonpositive_click':
        c = ctx.real('click')
        good = ctx.real('good', 1e-3, 1)
        ctx.assume(c <= 0)
        ctx.assume(c >= -100)
        for plane in PLANES:
            for cu in LINEAR_ANG + TAN_ANG:
                uu = getattr(U, cu)
                with with_preferred(adjustment=uu):
                    for which in ('h', 'v', 'both'):
                        for bare in (False, True):
                            mk = (lambda x: x) if bare else uu
                            h = mk(c) if which in ('h', 'both') else mk(good)
                            v = mk(c) if which in ('v', 'both') else mk(good)
                            ctx.check('construction', rejected(lambda: p.Sight(plane, U.Yard(100), h, v)),
                                      info={'plane': plane, 'unit': cu, 'which': which, 'bare': bare})
    elif case == 'nonnumeric_click':
        for bad in (None, '0.1', [0.1], U.Yard(1), U.FPS(3)):
            ctx.check('construction', rejected(lambda: p.Sight('FFP', U.Yard(100), bad, ok_click)), info={'h_click': repr(bad)})
            ctx.check('construction', rejected(lambda: p.Sight('FFP', U.Yard(100), ok_click, bad)), info={'v_click': repr(bad)})
    else:
        c = ctx.real('click', 1e-6, 0.5)
        for plane in PLANES:
            for cu in LINEAR_ANG:
                ctx.check('construction', not rejected(lambda: p.Sight(plane, U.Yard(100), getattr(U, cu)(c), getattr(U, cu)(c))),
                          info={'plane': plane, 'unit': cu, 'valid': True})
        ctx.check('construction', not rejected(lambda: p.Sight('FFP', None, ok_click, ok_click)), info={'ffp_without_scale': True})
        ctx.check('construction', not rejected(lambda: p.Sight('LWIR', None, ok_click, ok_click)), info={'lwir_without_scale': True})
