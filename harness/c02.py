"""C02 - zeroing returns an elevation that actually hits the point of aim.

loop     : the real zero_angle / barrel_elevation_for_target / set_weapon_zero with the trajectory replaced by an ARBITRARY trajectory
           (the stub of _integrate honours _integrate's contract - established by C03 - and returns a symbolic height per call): contract
           of the iteration (accepted elevation is the one last fired and its error was within accuracy; otherwise ZeroFindingError with
           the last elevation and the weapon's stored zero untouched; at most cMaxIterations trajectories).
geometry : with a locally straight trajectory h(x) = A + B x near the target: an accepted elevation puts the trajectory, AT the aim point
           (x = D cos look), within accuracy + (one step of travel) * |slope relative to the sight line| of the sight line.
newton   : straight-line limit: the elevation update contracts towards the solution for every sight line in (-60, 60) degrees.
"""
import math

from symx.runner import harness
from symx.stubs import symmath as M
from harness.common import pybc, mkrow

FUNCS = ['py_ballisticcalc.trajectory_calc._trajectory_calc.TrajectoryCalc.zero_angle',
         'py_ballisticcalc.interface.Calculator.barrel_elevation_for_target', 'py_ballisticcalc.interface.Calculator.set_weapon_zero',
         'py_ballisticcalc.conditions.Shot.barrel_elevation', 'py_ballisticcalc.exceptions.exceptions.ZeroFindingError.__init__']


class TrajStub:
    """stands for TrajectoryCalc._integrate: an arbitrary trajectory per call, reported the way the real method reports
    (filter NONE: one terminal row in the loop's exit window (zd + min_step, zd + min_step + advance]; filter RANGE: rows at the
    multiples of the record step - muzzle and, for record step = range, the row interpolated exactly at the range)"""

    def __init__(self, ctx, calc, height_fn):
        self.ctx, self.calc, self.height_fn = ctx, calc, height_fn
        self.calls = []

    def __call__(self, shot_info, maximum_range, record_step, filter_flags, time_step=0.0):
        p = pybc()
        k = len(self.calls)
        elev = self.calc.barrel_elevation
        step = self.calc.calc_step
        x_end = maximum_range + step + self.over(k)
        self.calls.append({'elev': elev, 'range': maximum_range, 'x_end': x_end, 'flags': filter_flags, 'record_step': record_step})
        if filter_flags & p.TrajFlag.RANGE:
            rows = [mkrow(p, time=0.0, dist_ft=0.0, height_ft=-self.calc.sight_height),
                    mkrow(p, time=1.0, dist_ft=record_step, height_ft=self.height_fn(k, elev, record_step))]
            if not (record_step == maximum_range):
                raise AssertionError('stub: only record_step == range is modelled')
            return rows
        return [mkrow(p, time=1.0, dist_ft=x_end, height_ft=self.height_fn(k, elev, x_end), flag=0)]

    def over(self, k):
        # the terminal point lies up to one advance (<= calc_step) beyond zd + min_step
        o = self.ctx.real(f'advance{k}', 1e-9, 1.0)
        return o * self.calc.calc_step


def _look(ctx):
    """look angle in (-60, 60) deg through the half-angle parametrisation t = tan(look/2): cos = (1-t^2)/(1+t^2), sin = 2t/(1+t^2).
    Symbolically the sin/cos summaries of the look angle are pre-seeded with these exact rational expressions (so that solver models are
    consistent with real trigonometry and replay natively); natively look = 2 atan(t)."""
    t = ctx.real('tan_half_look', -0.577, 0.577)
    if not ctx.symbolic:
        return 2 * math.atan(t)
    import z3
    from symx.core import SymFloat, lift
    look = ctx.fresh('look')
    eng = ctx.eng
    key = z3.simplify(lift(look)).sexpr()
    tt = lift(t)
    eng.summaries[('cos', key)] = (z3.simplify((1 - tt * tt) / (1 + tt * tt)), [lift(look)])
    eng.summaries[('sin', key)] = (z3.simplify(2 * tt / (1 + tt * tt)), [lift(look)])
    eng.add_axiom(z3.And(lift(look) > -1.0472, lift(look) < 1.0472))
    return look


def _world(ctx, max_iter, look_mode='symbolic'):
    p = pybc()
    U = p.Unit
    import py_ballisticcalc.trajectory_calc._trajectory_calc as tc
    look = _look(ctx)
    prev_zero = ctx.real('previous_zero_rad', -0.05, 0.05)
    D = ctx.real('zero_distance_ft', 10, 1e4)
    acc = ctx.real('accuracy_ft', 1e-9, 1.0)
    calc = p.Calculator(_config={'cZeroFindingAccuracy': acc, 'cMaxIterations': max_iter, 'max_calc_step_size_feet': 1.0})
    weapon = p.Weapon(U.Inch(2.0), U.Inch(12.0), U.Radian(prev_zero))
    dm = p.DragModel(0.223, p.TableG7, U.Grain(168.0), U.Inch(0.308), U.Inch(1.2))
    shot = p.Shot(weapon, p.Ammo(dm, U.FPS(2750.0)), U.Radian(look), atmo=_atmo(p))
    return p, U, tc, calc, shot, look, prev_zero, D, acc


_ATMO = []


def _atmo(p):
    if not _ATMO:
        _ATMO.append(p.Atmo.icao())
    return _ATMO[0]


def _cfg_loop(tier):
    its = [1, 2, 3] if tier == 'quick' else [1, 2, 3, 4, 5]
    out = [{'max_iter': m, 'api': a} for m in its for a in ('zero_angle', 'barrel_elevation_for_target', 'set_weapon_zero')]
    # how the zero distance is given: a quantity in another unit, or a BARE number under a preferred unit set after import
    units = ['Meter', 'Foot', 'Yard'] if tier == 'quick' else ['Meter', 'Foot', 'Yard', 'Kilometer', 'Inch', 'Mile']
    for i, u in enumerate(units):
        for a in ('barrel_elevation_for_target', 'set_weapon_zero'):
            out.append({'max_iter': 1 + i % 2, 'api': a, 'dist': ('bare', u)})
            out.append({'max_iter': 1 + (i + 1) % 2, 'api': a, 'dist': ('quantity', u)})
    return out


@harness('C02.loop', 'C02', configs=_cfg_loop, functions=FUNCS, cost=5, engine_opts={'div_check': False, 'nl_axioms_in_feasibility': False},
         must_reach=['check:accepted_elevation_was_fired_and_within_accuracy', 'check:failure_raises_with_last_elevation',
                     'check:failed_attempt_leaves_stored_zero', 'check:stored_zero_reproduces_elevation', 'accepted', 'failed'],
         bounds='iteration cap cMaxIterations = 1..3 (quick) / 1..5 (thorough): the cap is the loop bound, so the unwinding is complete for that configuration; '
                'every trajectory answer (height per call) symbolic; look angle in (-60, 60) deg, any previous zero, distance, accuracy',
         stubs=['TrajectoryCalc._integrate -> arbitrary trajectory honouring the contract decided in C03 (one terminal row / rows at record multiples)',
                'sin/cos summarised'],
         outside=['convergence of the iteration for real drag trajectories (only the straight-line contraction lemma C02.newton)'])
def c02_loop(ctx, max_iter, api, dist=None):
    p, U, tc, calc, shot, look, prev_zero, D, acc = _world(ctx, max_iter)
    from harness.common import with_preferred
    from ref import si
    import contextlib
    if dist is None:
        given, pref = U.Foot(D), contextlib.nullcontext()
    else:
        DU = getattr(U, dist[1])
        number = D * (si.FOOT / si.LENGTH_M[dist[1]])           # the same length as a number of `dist[1]`
        given = number if dist[0] == 'bare' else DU(number)
        pref = with_preferred(distance=DU) if dist[0] == 'bare' else contextlib.nullcontext()
        D = DU(number).raw_value / 12          # the length as the real unit code reads that number of `dist[1]` (unit factors are C06's subject)
    heights = []

    def height_fn(k, elev, x):
        h = ctx.real(f'height{k}', -1e4, 1e4)
        heights.append(h)
        return h
    stub = TrajStub(ctx, calc._calc, height_fn)
    calc._calc._integrate = stub
    # the calculator is not fresh: an earlier zero search on it used up its whole iteration budget and failed
    def far_off(k, elev, x):
        return 1e6
    warm = TrajStub(ctx, calc._calc, far_off)
    warm.over = lambda k: 0.5 * calc._calc.calc_step
    calc._calc._integrate = warm
    try:
        calc._calc.zero_angle(shot, U.Foot(D))
    except p.ZeroFindingError:
        pass
    calc._calc._integrate = stub
    stored_before = shot.weapon.zero_elevation
    raw_before = stored_before.raw_value
    try:
        with pref:
            if api == 'zero_angle':
                found = calc._calc.zero_angle(shot, given) >> U.Radian
            elif api == 'barrel_elevation_for_target':
                found = (calc.barrel_elevation_for_target(shot, given) >> U.Radian) + look
            else:
                found = (calc.set_weapon_zero(shot, given) >> U.Radian) + look
        err = None
    except p.ZeroFindingError as e:
        found, err = None, e
    n = len(stub.calls)
    ctx.check('at_most_max_iterations_trajectories', 1 <= n <= max_iter, info={'trajectories': n})
    if n == 0:
        return          # (no trajectory was fired at all: the other obligations have nothing to look at)
    h_aim = D * M.sin(look)
    last = stub.calls[-1]
    last_err = ctx.abs(heights[-1] - h_aim)
    if err is None:
        ctx.reach('accepted')
        ctx.check_eq('accepted_elevation_was_fired_and_within_accuracy', found, last['elev'])
        ctx.check('accepted_elevation_was_fired_and_within_accuracy', last_err <= acc, info={'what': 'error'})
        for k in range(n - 1):
            ctx.check('earlier_trajectories_missed', ctx.abs(heights[k] - h_aim) > acc)
        if api == 'set_weapon_zero':
            ctx.check_eq('stored_zero_reproduces_elevation', shot.weapon.zero_elevation >> U.Radian, found - look)
            ctx.check_eq('stored_zero_reproduces_elevation', shot.barrel_elevation >> U.Radian, found, info={'what': 'Shot.barrel_elevation'})
        else:
            ctx.check('query_leaves_stored_zero', shot.weapon.zero_elevation is stored_before and ctx.same_term(stored_before.raw_value, raw_before))
            ctx.reach('check:stored_zero_reproduces_elevation')
    else:
        ctx.reach('failed')
        ctx.check('failure_raises_with_last_elevation', n == max_iter and err.iterations_count == max_iter)
        ctx.check('failure_only_when_accuracy_not_met', last_err > acc)
        ctx.check_eq('failure_reports_error', err.zero_finding_error, last_err)
        ctx.check('failed_attempt_leaves_stored_zero', shot.weapon.zero_elevation is stored_before and ctx.same_term(stored_before.raw_value, raw_before))
    # every trajectory was fired towards the horizontal distance of the aim point, with the elevation then current
    for c in stub.calls:
        ctx.check_eq('fired_to_aim_point_distance', c['range'], D * M.cos(look), info={'distance_given_as': dist})
    ctx.check_eq('starts_from_current_total_elevation', stub.calls[0]['elev'], look + prev_zero)


@harness('C02.geometry', 'C02', functions=FUNCS, cost=3, engine_opts={'div_check': False, 'nl_axioms_in_feasibility': False},
         must_reach=['check:hits_point_of_aim_within_accuracy_plus_one_step_times_relative_slope', 'accepted'],
         bounds='one accepted trajectory, locally straight near the target: h(x) = A + B x with symbolic A, B; look angle in (-60, 60) deg with cos > 1/2; '
                'terminal sample up to one advance beyond the loop bound',
         stubs=['TrajectoryCalc._integrate -> straight trajectory reported with _integrate\'s contract', 'sin/cos summarised (s^2 + c^2 = 1, c > 1/2)'])
def c02_geometry(ctx):
    p, U, tc, calc, shot, look, prev_zero, D, acc = _world(ctx, 1)
    A = ctx.real('A', -1e3, 1e3)
    B = ctx.real('B', -3, 3)

    def height_fn(k, elev, x):
        return A + B * x
    stub = TrajStub(ctx, calc._calc, height_fn)
    calc._calc._integrate = stub
    cl, sl = M.cos(look), M.sin(look)
    ctx.assume(cl > 0.5)
    try:
        calc._calc.zero_angle(shot, U.Foot(D))
    except p.ZeroFindingError:
        return
    ctx.reach('accepted')
    zd = D * cl
    # distance of the trajectory from the sight line AT the aim point (x = zd): (h(zd) - zd*tan(look)) * cos(look) = h(zd)*c - zd*s
    miss = (A + B * zd) * cl - zd * sl
    step_travel = calc._calc.calc_step * 2                # at most two integration advances beyond the target
    rel_slope = B * cl - sl                               # (B - tan look) * cos look
    ctx.check('hits_point_of_aim_within_accuracy_plus_one_step_times_relative_slope',
              ctx.abs(miss) <= acc + step_travel * ctx.abs(rel_slope) + 1e-12)


@harness('C02.newton', 'C02', configs=lambda tier: [{'look_c': l} for l in (0.0, 0.6, -0.9)], functions=FUNCS, cost=3, engine_opts={'div_check': False, 'nl_axioms_in_feasibility': False, 'oblig_timeout_ms': 20000},
         must_reach=['check:update_rule_extracted', 'check:update_contracts_in_the_straight_line_limit'],
         bounds='the elevation update of the real zero_angle is extracted symbolically from two real iterations on a trajectory whose height error at the target is '
                'x * d (d symbolic): e1 = e0 - d * F with F the code\'s own factor; then the stand-alone lemma: on the zero-drop (straight line from the muzzle) '
                'limit, d = tan e0 - tan e*, the update contracts: |e1 - e*| < |e0 - e*| for all e0, e* in (-60, 60) deg within 0.1 rad of each other',
         stubs=['mean-value theorem for tan: tan a - tan b = (1 + xi^2)(a - b) with xi between tan a and tan b; cos^2 a (1 + tan^2 a) = 1; |tan| < 1.74 on the domain'],
         outside=['curved (real drag) trajectories: the straight-line lemma does not establish convergence for them (C02.witness replays a few through the public API)'])
def c02_newton(ctx, look_c=0.0):
    p, U, tc, calc, shot, look, prev_zero, D, acc = _world(ctx, 2)
    # distance, accuracy and sight line concrete here (they only enter through zd, which cancels in the update rule)
    D, acc, look = 300.0, 1e-5, look_c
    calc = p.Calculator(_config={'cZeroFindingAccuracy': acc, 'cMaxIterations': 2, 'max_calc_step_size_feet': 1.0})
    shot.look_angle = U.Radian(look)
    cl = math.cos(look)
    dsl = ctx.real('slope_error', -3, 3)          # d = tan(e0) - tan(e*): height error at distance x is x * d
    ctx.assume(ctx.abs(dsl) > 1e-6)
    elevs = []

    def height_fn(k, elev, x):
        elevs.append(elev)
        return D * M.sin(look) + x * dsl
    stub = TrajStub(ctx, calc._calc, height_fn)
    stub.over = lambda k: -calc._calc.calc_step     # sample exactly at zd in this lemma
    calc._calc._integrate = stub
    ctx.assume(ctx.abs(dsl) > 1e-3)               # the first trajectory misses, so an update happens
    try:
        calc._calc.zero_angle(shot, U.Foot(D))
    except p.ZeroFindingError:
        pass
    ctx.check('update_rule_extracted', len(elevs) == 2)
    if len(elevs) < 2:
        return
    e0, e1 = elevs[0], elevs[1]
    c0 = M.cos(e0)
    # the factor the code applies to the slope error
    F = (e0 - e1) / dsl
    if not ctx.symbolic:
        return
    import z3
    from symx.core import lift
    Ft = z3.simplify(lift(F))
    # stand-alone lemma over fresh reals: e (elevation error), t0 = tan e0, ts = tan e*, xi, c (cos e0); F is the extracted term with
    # the cosine summary renamed to c
    e, t0, ts, xi, c = z3.Reals('lem_e lem_t0 lem_ts lem_xi lem_c')
    Fl = z3.substitute(Ft, (lift(c0), c))
    free = [str(v) for v in _vars(Fl)]
    ctx.check('update_factor_depends_only_on_cos_of_elevation', set(free) <= {'lem_c', 'slope_error'}, info={'vars': free})
    hyps = [lift(dsl) != 0, e != 0, e >= -0.1, e <= 0.1, t0 > -1.74, t0 < 1.74, ts > -1.74, ts < 1.74,
            z3.Or(z3.And(xi >= t0, xi <= ts), z3.And(xi >= ts, xi <= t0)),
            t0 - ts == (1 + xi * xi) * e, c > 0, c * c * (1 + t0 * t0) == 1]
    new_err = e - (t0 - ts) * Fl
    goal = z3.If(new_err >= 0, new_err, -new_err) < z3.If(e >= 0, e, -e)
    ctx.lemma('update_contracts_in_the_straight_line_limit', hyps, goal, info={'F': str(Fl)})


def _vars(t, acc=None):
    import z3
    if acc is None:
        acc = {}
    if z3.is_const(t) and t.decl().kind() == z3.Z3_OP_UNINTERPRETED:
        acc[t.get_id()] = t
    for ch in t.children():
        _vars(ch, acc)
    return list(acc.values())


def _cfg_witness(tier):
    looks = [-20.0, 20.0, 45.0, 55.0] if tier == 'quick' else [-55.0, -45.0, -20.0, -5.0, 5.0, 20.0, 30.0, 45.0, 50.0, 55.0, 59.0]
    return [{'look_deg': l, 'dist_yd': d, 'wind': w} for l in looks for d, w in ((300.0, 'none'), (100.0, 'left'), (300.0, 'head_then_tail'), (250.0, 'tail_then_head'))]


@harness('C02.witness', 'C02', configs=_cfg_witness, functions=FUNCS, must_reach=['check:public_api_hits_point_of_aim'],
         bounds='TEST STRENGTH (concrete replay of the geometry / contraction findings through the public API, not a solver claim): carrier A zeroed with '
                'the default solver at look angles in {-20, 20, 45, 55} deg (thorough: 11 angles) x {300 yd no wind, 100 yd cross wind, 300 / 250 yd with two head/tail wind segments whose boundary lies short of the target}; the row at the zero '
                'look-distance of a subsequent fire lies within accuracy + one step * relative slope of the sight line')
def c02_witness(ctx, look_deg, dist_yd, wind):
    from harness import carriers
    p = pybc()
    U = p.Unit
    calc, shot = carriers.make('C', 0.5, wind, look_deg=look_deg)       # carrier C is not pre-zeroed
    shot.weapon.sight_height = U.Inch(2.0)
    try:
        calc.set_weapon_zero(shot, U.Yard(dist_yd))
        failed = False
    except (p.ZeroFindingError, p.RangeError, OverflowError, ValueError, ZeroDivisionError):
        failed = True
    ctx.check('public_api_does_not_fail_for_reachable_target', not failed, info={'look_deg': look_deg})
    if failed:
        ctx.check('public_api_hits_point_of_aim', False, info={'look_deg': look_deg, 'why': 'ZeroFindingError'})
        return
    horiz = U.Yard(dist_yd * math.cos(math.radians(look_deg)))
    res = calc.fire(shot, horiz, horiz)
    row = res.trajectory[-1] if abs((res.trajectory[-1].look_distance >> U.Yard) - dist_yd) < abs((res.trajectory[1].look_distance >> U.Yard) - dist_yd) else res.trajectory[1]
    drop = row.target_drop >> U.Foot
    slope_rel = abs(math.tan(row.angle >> U.Radian) - math.tan(math.radians(look_deg))) * math.cos(math.radians(look_deg))
    ctx.check('public_api_hits_point_of_aim', abs(drop) <= 5e-6 + 0.5 * slope_rel + 1e-9, info={'look_deg': look_deg, 'target_drop_ft': drop})


def _cfg_reach(tier):
    cases = [(0.0, 1500.0), (10.0, 1200.0), (20.0, 1200.0), (30.0, 900.0), (45.0, 900.0), (-20.0, 900.0),
             (10.0, 1400.0), (10.0, 1500.0), (20.0, 1400.0), (30.0, 1200.0), (45.0, 1200.0)]
    if tier == 'thorough':
        cases += [(5.0, 1500.0), (15.0, 1300.0), (25.0, 1100.0), (40.0, 1000.0), (-10.0, 1000.0)]
    return [{'look_deg': l, 'dist_yd': d} for (l, d) in cases]


@harness('C02.reach', 'C02', configs=_cfg_reach, functions=FUNCS, must_reach=['check:zeroing_does_not_fail_for_reachable_target'],
         bounds='TEST STRENGTH (concrete runs through the public API, not a solver claim - convergence of the search on real drag trajectories is outside what the '
                'solver decides): a slow projectile (G1 BC 0.12, 1100 fps, 2 ft steps) zeroed at long range on level and inclined sight lines, up to near its maximum range. '
                'The statement\'s precondition is established natively first (launched along the sight line the projectile reaches the distance within the limits, and some '
                'elevation puts it above the aim point, so the target is within reach); then set_weapon_zero must return, and the zeroed shot must pass the aim point',
         outside=['loads and distances other than the listed ones'])
def c02_reach(ctx, look_deg, dist_yd):
    p = pybc()
    U = p.Unit
    cfg = {'max_calc_step_size_feet': 2.0}

    def mk(rel=0.0):
        return p.Shot(p.Weapon(U.Inch(2.0)), p.Ammo(p.DragModel(0.12, p.TableG1), U.FPS(1100.0)), look_angle=U.Degree(look_deg), relative_angle=U.Degree(rel))
    zd = math.cos(math.radians(look_deg)) * dist_yd * 3.0
    aim = math.sin(math.radians(look_deg)) * dist_yd * 3.0
    try:
        p.Calculator(_config=cfg).fire(mk(), U.Foot(zd), U.Foot(zd))
        pre = True
    except p.RangeError:
        pre = False
    within_reach = False
    if pre:
        for rel in range(0, 60, 2):
            try:
                rows = p.Calculator(_config=cfg).fire(mk(float(rel)), U.Foot(zd), U.Foot(zd)).trajectory
            except p.RangeError:
                break
            if (rows[-1].height >> U.Foot) >= aim:
                within_reach = True
                break
    ctx.check('precondition_established', pre and within_reach, info={'look_deg': look_deg, 'dist_yd': dist_yd})
    if not (pre and within_reach):
        return
    calc, shot = p.Calculator(_config=cfg), mk()
    try:
        calc.set_weapon_zero(shot, U.Yard(dist_yd))
        failed = None
    except (p.ZeroFindingError, p.RangeError) as e:
        failed = f'{type(e).__name__}: {e}'[:160]
    ctx.check('zeroing_does_not_fail_for_reachable_target', failed is None, info={'look_deg': look_deg, 'dist_yd': dist_yd, 'raised': failed})
    if failed is not None:
        return
    res = calc.fire(shot, U.Foot(zd), U.Foot(zd))
    row = res.trajectory[-1]
    drop = row.target_drop >> U.Foot
    slope_rel = abs(math.tan(row.angle >> U.Radian) - math.tan(math.radians(look_deg))) * math.cos(math.radians(look_deg))
    ctx.check('zeroed_shot_passes_the_aim_point', abs(drop) <= 5e-6 + 2.0 * slope_rel + 1e-9, info={'look_deg': look_deg, 'target_drop_ft': drop})
