"""Regression tests of the engine requirements of DESIGN.md 2.8 (run by setup.sh; each line is something a prototype got wrong first)."""
import bisect
import math
import os
import sys
import warnings

HERE = os.path.dirname(os.path.dirname(os.path.abspath(__file__)))
sys.path.insert(0, HERE)
sys.path.insert(0, os.environ.get('PYBC_REPO', '/repo'))
warnings.filterwarnings('ignore')

import z3  # noqa: E402
from symx import core, stubs  # noqa: E402
from symx.core import SymFloat, SymBool, Engine, PathAbort  # noqa: E402


def run(fn, **opts):
    """explore fn() on all paths; returns the list of per-path results"""
    eng = Engine(timeout_ms=5000, **opts)
    out = []

    def path():
        out.append(fn(eng))
    eng.explore(path, lambda kind, exc: None)
    return out, eng


def main():
    stubs.install()
    import py_ballisticcalc as p
    import py_ballisticcalc.unit as unit
    x = z3.Real('x')

    # 1. unmodelled operators trap instead of silently producing NaN; floor-like operators are modelled
    def t1(eng):
        for f in (lambda v: v.__reduce__(), lambda v: stubs.symmath.frexp(v)):
            try:
                f(SymFloat(x))
                return False
            except core.SymLeak:
                pass
        return True
    assert all(run(t1)[0]), 'trap'

    def t1b(eng):
        eng.add_axiom(z3.And(x >= 0, x < 3))
        v = SymFloat(x)
        q, r = divmod(v, 1.0)
        k = int(v)                     # forks over 0, 1, 2
        ok = eng.decide(z3.And(q.t == k, r.t == x - k)) and not eng.decide(z3.Not(z3.And(q.t == k, r.t == x - k)))
        ok = ok and math.floor(v).__index__() == k and (v // 1).t.eq(q.t)
        d = {v: 'a'}                   # symbolic dict keys: one bucket, == decides
        ok = ok and d[SymFloat(x + 0)] == 'a'
        return (k, ok)
    res, _ = run(t1b)
    assert sorted(res) == [(0, True), (1, True), (2, True)], res

    # 2. a NaN that leaked through C code is refused when it meets a symbolic value
    def t2(eng):
        try:
            SymFloat(x) + math.sqrt(float.__new__(float, 'nan'))
            return False
        except core.SymLeak:
            return True
    assert all(run(t2)[0]), 'nan leak'

    # 3. the float stub keeps the symbolic value of a quantity (builtin float() would strip it)
    def t3(eng):
        q = p.Distance.Foot(SymFloat(x))
        return isinstance(unit.float(q), SymFloat) and isinstance(q >= p.Distance.Inch(3.0), (bool, SymBool))
    assert all(run(t3)[0]), 'float stub'

    # 4. SymBool has the bool ordering (C bisect compares wrapper[mid] < True)
    def t4(eng):
        eng.add_axiom(z3.And(x >= 0, x <= 10))

        class W:
            def __getitem__(self, i):
                return SymFloat(x) <= float(i)

            def __len__(self):
                return 5
        return bisect.bisect_left(W(), True, 0, 5)
    res, eng = run(t4)
    assert sorted(res) == [0, 1, 2, 3, 4, 5], res

    # 5. summaries are keyed by the printed argument: same argument => same symbol, across objects
    def t5(eng):
        a = stubs.symmath.sqrt(SymFloat(x * x + 1))
        b = stubs.symmath.sqrt(SymFloat(1 + x * x))
        return z3.simplify(a.t - b.t).eq(z3.RealVal(0)) or a.t.eq(b.t)
    assert all(run(t5)[0]), 'summary keying'

    # 6. division forks on a zero divisor (Python raises ZeroDivisionError)
    def t6(eng):
        try:
            1.0 / SymFloat(x)
            return 'ok'
        except ZeroDivisionError:
            return 'zde'
    assert sorted(run(t6)[0]) == ['ok', 'zde']

    # 7. non-linear abstraction keeps feasibility sound (over-approximation): both branches of y*y > 2 explored
    def t7(eng):
        y = SymFloat(z3.Real('y'))
        return bool(y * y > 2.0)
    assert sorted(run(t7, nl_axioms_in_feasibility=False)[0]) == [False, True]

    # 8. the value stub of float is usable as a type in isinstance
    assert isinstance(1.5, unit.float) and not isinstance('a', unit.float)
    print('symx selftest: 8 groups passed')


if __name__ == '__main__':
    main()
