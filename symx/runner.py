"""Harness registry, parallel exploration, replay, known findings, evidence, exit codes."""
from __future__ import annotations

import hashlib
import importlib
import inspect
import json
import multiprocessing as mp
import os
import subprocess
import sys
import time
import traceback
from typing import Any, Callable, Dict, List, Optional

VERIF = os.path.dirname(os.path.dirname(os.path.abspath(__file__)))
REPO = os.environ.get('PYBC_REPO', '/repo')

EXIT_OK, EXIT_VIOLATION, EXIT_HARNESS = 0, 1, 3


class Harness:
    def __init__(self, name: str, prop: str, fn: Callable, configs: Callable[[str], List[dict]],
                 must_reach: List[str] = (), bounds: str = '', functions: List[str] = (),
                 assumptions: List[str] = (), stubs: List[str] = (), outside: List[str] = (),
                 engine_opts: Optional[dict] = None, cost: float = 1.0, allow_cut: List[str] = ()):
        self.name = name
        self.prop = prop
        self.fn = fn
        self.configs = configs
        self.must_reach = list(must_reach)
        self.bounds = bounds
        self.functions = list(functions)
        self.assumptions = list(assumptions)
        self.stubs = list(stubs)
        self.outside = list(outside)
        self.engine_opts = engine_opts or {}
        self.cost = cost
        self.allow_cut = list(allow_cut)


REGISTRY: Dict[str, Harness] = {}


def harness(name: str, prop: str, configs=None, **kw):
    def deco(fn):
        REGISTRY[name] = Harness(name, prop, fn, configs or (lambda tier: [{}]), **kw)
        return fn
    return deco


def load_harnesses(prop: str):
    mod = importlib.import_module(f'harness.{prop.lower()}')
    return [h for h in REGISTRY.values() if h.prop == prop], mod


# --------------------------------------------------------------------------------------------
# known findings


def load_known(prop: str) -> List[dict]:
    p = os.path.join(VERIF, 'known_findings.json')
    if not os.path.exists(p):
        return []
    with open(p) as f:
        data = json.load(f)
    return [e for e in data.get('findings', []) if e.get('property') == prop and e.get('status') == 'known']


def known_for(known: List[dict], hname: str, config: dict) -> List[dict]:
    out = []
    for e in known:
        if e.get('harness') not in (None, hname):
            continue
        m = e.get('config') or {}
        if all(config.get(k) == v for k, v in m.items()):
            out.append(e)
    return out


# --------------------------------------------------------------------------------------------
# worker


def _profile_functions(fn_set: set):
    repo_prefix = os.path.realpath(REPO) + os.sep

    def prof(frame, event, arg):
        if event == 'call':
            co = frame.f_code
            f = co.co_filename
            if f.startswith(repo_prefix) and '/py_ballisticcalc/' in f:
                fn_set.add((f[len(repo_prefix):], co.co_qualname if hasattr(co, 'co_qualname') else co.co_name,
                            co.co_firstlineno))
    return prof


def run_unit(args):
    """explore one (harness, config) work unit in a worker process; returns plain data"""
    hname, config, tier, prop, idx = args
    t0 = time.time()
    out = {'harness': hname, 'config': config, 'idx': idx, 'error': None}
    try:
        sys.setrecursionlimit(20000)
        import signal
        from . import core, stubs

        def _on_alarm(signum, frame):
            raise core.HarnessError(f'work unit exceeded its wall-clock budget ({budget}s): inconclusive')
        budget = int(os.environ.get('VERIF_UNIT_TIMEOUT', '900' if tier == 'quick' else '7200'))
        hb = REGISTRY[hname].engine_opts.get('unit_timeout') if hname in REGISTRY else None
        if hb:
            budget = min(budget, int(hb) * (1 if tier == 'quick' else 4))
        signal.signal(signal.SIGALRM, _on_alarm)
        signal.alarm(budget)
        # the alarm handler only runs between bytecodes: a solver call that ignores its own timeout (seen: nlsat / integer models on
        # changed code) would hold the unit for ever.  A watchdog thread (the z3 binding releases the GIL) cancels the running
        # query once the budget is spent, so that control returns to Python and the pending alarm is delivered.
        import threading
        unit_done = threading.Event()

        def _watchdog():
            import z3 as _z3
            # (a) a single solver call far beyond any configured per-query timeout (200 s quick / 800 s thorough; the longest configured retry is 160 s / 640 s) is cancelled: it comes back
            #     'unknown' and is handled like every other undecided query; (b) once the unit's budget is spent every call is cancelled
            cap = 200.0 if tier == 'quick' else 800.0
            t_end = time.time() + budget + 2
            while time.time() < t_end:
                if unit_done.wait(2):
                    return
                st = core.CALL_STARTED[0]
                if st is not None and time.time() - st > cap:
                    try:
                        _z3.main_ctx().interrupt()
                    except Exception:
                        pass
            for _ in range(200):
                try:
                    _z3.main_ctx().interrupt()
                except Exception:
                    pass
                if unit_done.wait(3):
                    return
            os._exit(70)     # nothing helped: give the pool its worker back (the parent reports the lost unit as a harness error)
        threading.Thread(target=_watchdog, daemon=True).start()
        from .ctx import SymCtx
        stubs.install()
        load_harnesses(prop)
        h = REGISTRY[hname]
        opts = dict(rlimit=0, timeout_ms=4000, max_paths=200000, max_decisions=6000, div_check=True)
        opts.update(h.engine_opts)
        opts.pop('unit_timeout', None)
        if tier == 'thorough':
            opts['rlimit'] = opts['rlimit'] * 4
            opts['timeout_ms'] = opts['timeout_ms'] * 4
        o_rl = opts.pop('oblig_rlimit', 0)
        o_to = opts.pop('oblig_timeout_ms', 6000)
        if tier == 'thorough':
            o_rl *= 4
            o_to *= 4
        eng = core.Engine(**opts)
        from . import procstate
        eng.path_start_hooks.append(procstate.capture().restore)
        known = known_for(load_known(prop), hname, config)
        ctx = SymCtx(eng, {'harness': hname, 'config': config}, known, o_rl, o_to)
        ctx.cross_check = (tier == 'thorough')
        fn_set: set = set()
        cut_kinds: Dict[str, int] = {}
        path_ends: Dict[str, int] = {}
        prof_paths = [0]

        def run_path():
            ctx.begin_path()
            if prof_paths[0] < 3:
                prof_paths[0] += 1
                sys.setprofile(_profile_functions(fn_set))
                try:
                    h.fn(ctx, **config)
                finally:
                    sys.setprofile(None)
            else:
                h.fn(ctx, **config)

        def on_end(kind, exc):
            ctx.end_path()
            path_ends[kind] = path_ends.get(kind, 0) + 1
            if kind.startswith('cut:'):
                k = kind + (':' + exc.msg if exc is not None and kind in ('cut:declared', 'cut:bound') else '')
                cut_kinds[k] = cut_kinds.get(k, 0) + 1
            if len(ctx.samples) < 2 and kind == 'ok' and eng.model is not None and ctx.inputs:
                try:
                    from .ctx import _jsonable
                    ctx.samples.append({'harness': hname, 'config': config, 'decisions': len(eng.decisions),
                                        'path_condition_literals': len(eng.pc),
                                        'model_of_path': {k: (v['float'] if isinstance(v, dict) else v)
                                                          for k, v in _jsonable(ctx._inputs_of(eng.model)).items()}})
                except Exception:
                    pass

        timed_out = None
        stopped = None
        try:
            eng.explore(run_path, on_end)
        except core.HarnessError as e:
            if 'wall-clock budget' in str(e):
                timed_out = str(e)      # keep what was found so far (candidates), report the unit as inconclusive
            elif isinstance(e, core.SymLeak):
                stopped = e
            else:
                raise
        except (KeyboardInterrupt, SystemExit):
            raise
        except BaseException as e:
            stopped = e
        if stopped is not None:
            e = stopped
            # symbolic execution could not proceed on some path (typically an operation on a symbolic value that the proxies do
            # not model, introduced by a change to the code).  The unit is a harness error whatever happens next; but before
            # giving up, probe the unit natively: a natively failing check is a violation (confirmed by replay like any other).
            out['error'] = ''.join(traceback.format_exception(type(e), e, e.__traceback__))[-4000:]
            if not ctx.candidates:
                try:
                    hit = ctx.probe_any(seed=idx)
                except Exception:
                    hit = None
                if hit is not None:
                    ctx.candidates.append({'harness': hname, 'config': config, 'check': hit[1], 'inputs': hit[0], 'info': None,
                                           'kinds': {}, 'source': 'native probe after symbolic execution stopped: ' + repr(e)[:200]})
        out['timeout'] = timed_out
        out.update({
            'paths': eng.stats.paths, 'cut': eng.stats.cut, 'cut_kinds': cut_kinds, 'path_ends': path_ends,
            'decisions': eng.stats.decisions,
            'feas_queries': eng.stats.queries, 'feas_solver_s': eng.stats.solver_s, 'feas_unknown': eng.stats.unknown,
            'oblig_queries': ctx.oblig_queries, 'oblig_solver_s': ctx.oblig_solver_s,
            'checks': {k: {'n': r.n, 'discharged': r.discharged, 'by': r.by, 'undecided': r.undecided,
                           'candidates': r.candidates, 'known_hits': r.known_hits, 'sample': r.sample}
                       for k, r in ctx.checks.items()},
            'reached': ctx.reached, 'candidates': ctx.candidates, 'known_hits': ctx.known_hits,
            'undecided': ctx.undecided, 'samples': ctx.samples,
            'nontrivial_paths': ctx.nontrivial_paths,
            'assumption_notes': eng.assumption_notes,
            'cross': ctx.cross,
            'functions': sorted(fn_set),
        })
    except BaseException as e:  # noqa
        out['error'] = ''.join(traceback.format_exception(type(e), e, e.__traceback__))[-4000:]
    finally:
        try:
            import signal as _sig
            _sig.alarm(0)
        except Exception:
            pass
        try:
            unit_done.set()
        except Exception:
            pass
    out['wall_s'] = time.time() - t0
    return out


# --------------------------------------------------------------------------------------------
# replay


def replay_inprocess(hname: str, config: dict, inputs: dict, prop: str):
    """run the harness natively on one input assignment; returns (failures, passed, aborted)"""
    from .ctx import ConcreteCtx, inputs_from_json
    from .core import PathAbort
    from . import procstate
    load_harnesses(prop)
    h = REGISTRY[hname]
    procstate.capture().restore()
    c = ConcreteCtx(inputs_from_json(inputs))
    aborted = None
    try:
        h.fn(c, **config)
    except PathAbort as e:
        aborted = f'{e.kind}: {e.msg}'
    except Exception as e:
        if not c.note_exception(e):
            raise
    return c.failures, c.passed, aborted


def replay_file(path: str) -> int:
    """fresh-interpreter replay of a candidate file WITHOUT symbolic stubs; exit 1 if it reproduces"""
    with open(path) as f:
        cand = json.load(f)
    prop = cand['property']
    failures, passed, aborted = replay_inprocess(cand['harness'], cand['config'], cand['inputs'], prop)
    if failures:
        for fl in failures[:5]:
            print(f'REPRODUCED property={prop} harness={cand["harness"]} check={fl.name} detail={fl.detail}')
        return 1
    print(f'NOT-REPRODUCED property={prop} harness={cand["harness"]} passed={passed} aborted={aborted}')
    return 0


def refine_natively(cand: dict, prop: str, budget: int = 40) -> Optional[dict]:
    """A solver model may sit exactly on a boundary that double rounding moves to the other side (|a-b| = tol*|a| over the reals),
    or use values that collapse to one double.  Before calling such a candidate unconfirmed, look for a double-representable
    witness next to it: relative nudges of single inputs and of pairs of nearly equal inputs.  Only a natively failing
    assignment is returned; it is then confirmed like any other candidate."""
    from .ctx import inputs_from_json
    base = inputs_from_json(cand['inputs'])
    reals = [k for k, v in base.items() if isinstance(v, float)]
    trials = []
    for i, a in enumerate(reals):
        for b in reals[i + 1:]:
            va, vb = base[a], base[b]
            if va != 0 and abs(va - vb) <= 1e-6 * max(abs(va), abs(vb)):
                for d in (1e-10, -1e-10, 4e-10, -4e-10, 1e-12, -1e-12, 0.0):
                    t = dict(base)
                    t[b] = va * (1 + d)
                    trials.append(t)
    for a in reals:
        for d in (1e-9, -1e-9, 1e-12, -1e-12, 1e-6, -1e-6):
            t = dict(base)
            t[a] = base[a] * (1 + d) if base[a] != 0 else d
            trials.append(t)
    for t in trials[:budget]:
        try:
            fl, _, _ = replay_inprocess(cand['harness'], cand['config'], t, prop)
        except Exception:
            continue
        if any(f.name == cand['check'] for f in fl):
            c2 = dict(cand)
            c2['inputs'] = t
            c2['source'] = 'double-representable witness next to the solver model (the model itself sits on a rounding boundary)'
            return c2
    return None


def confirm(cand: dict, prop: str, n: int) -> Optional[str]:
    """write the candidate to a replay file and confirm it in a fresh interpreter (no stubs)"""
    d = os.path.join(VERIF, 'replays', prop)
    os.makedirs(d, exist_ok=True)
    key = hashlib.sha256(json.dumps([cand['harness'], cand['config'], cand['check'], cand['inputs']],
                                    sort_keys=True, default=str).encode()).hexdigest()[:12]
    path = os.path.join(d, f'{cand["harness"]}-{key}.json')
    body = dict(cand)
    body['property'] = prop
    with open(path, 'w') as f:
        json.dump(body, f, indent=1, default=str)
    r = subprocess.run([sys.executable, os.path.join(VERIF, 'check.py'), prop, '--replay', path],
                       capture_output=True, text=True, cwd=VERIF, timeout=600)
    if r.returncode == 1 and 'REPRODUCED' in r.stdout:
        return path
    if r.returncode not in (0, 1):
        sys.stderr.write(r.stdout[-2000:] + r.stderr[-2000:])
    try:
        os.remove(path)
    except OSError:
        pass
    return None


# --------------------------------------------------------------------------------------------
# evidence


def _src_hashes(fn_records) -> List[dict]:
    out = []
    cache: Dict[str, List[str]] = {}
    for (f, qn, line) in fn_records:
        p = os.path.join(REPO, f)
        try:
            if p not in cache:
                with open(p) as fh:
                    cache[p] = fh.readlines()
            lines = cache[p]
            # hash from the def line to the next line with indentation <= the def's
            start = line - 1
            ind = len(lines[start]) - len(lines[start].lstrip())
            end = start + 1
            while end < len(lines):
                s = lines[end]
                if s.strip() and (len(s) - len(s.lstrip())) <= ind and not s.lstrip().startswith(('#', ')')):
                    break
                end += 1
            hsh = hashlib.sha256(''.join(lines[start:end]).encode()).hexdigest()[:16]
        except Exception:
            hsh = '?'
        out.append({'file': f, 'function': qn, 'line': line, 'sha256_16': hsh})
    return out


def run_property(prop: str, tier: str, seed: int, jobs: int = 0, only: Optional[str] = None) -> int:
    t0 = time.time()
    hs, _ = load_harnesses(prop)
    if only:
        hs = [h for h in hs if h.name == only or h.name.endswith('.' + only)]
    if not hs:
        print(f'HARNESS-ERROR property={prop}: no harness registered')
        return EXIT_HARNESS
    units = []
    for h in hs:
        for i, cfg in enumerate(h.configs(tier)):
            units.append((h.name, cfg, tier, prop, i))
    # order: expensive first; seed permutes ties only
    import random
    rnd = random.Random(seed)
    rnd.shuffle(units)
    units.sort(key=lambda u: -REGISTRY[u[0]].cost)
    jobs = jobs or int(os.environ.get('VERIF_JOBS', '0')) or min(16, os.cpu_count() or 1)
    results = []
    if jobs == 1 or len(units) == 1:
        for u in units:
            results.append(run_unit(u))
    else:
        ctxm = mp.get_context('fork')
        # no result for (unit budget + 12 min) means a worker is lost or stuck beyond what its own watchdog could cancel:
        # the pool is torn down and every unit without a result is reported as a harness error (never as a pass)
        stall = int(os.environ.get('VERIF_UNIT_TIMEOUT', '900' if tier == 'quick' else '7200')) + 720
        with ctxm.Pool(min(jobs, len(units)), maxtasksperchild=50) as pool:
            it = pool.imap_unordered(run_unit, units, chunksize=1)
            while True:
                try:
                    results.append(it.next(timeout=stall))
                except StopIteration:
                    break
                except mp.TimeoutError:
                    pool.terminate()
                    done = {(r['harness'], r['idx']) for r in results}
                    for u in units:
                        if (u[0], u[4]) not in done:
                            results.append({'harness': u[0], 'config': u[1], 'idx': u[4], 'wall_s': float(stall),
                                            'error': f'work unit gave no result within {stall}s (worker lost or stuck): inconclusive'})
                    break
    results.sort(key=lambda r: (r['harness'], r['idx']))

    errors = [r for r in results if r.get('error')]
    timeouts = [r for r in results if r.get('timeout')]
    known_all = load_known(prop)
    agg: Dict[str, dict] = {}
    total = dict(paths=0, cut=0, obligations=0, discharged=0, undecided=0, candidates=0, known_hits=0,
                 feas_queries=0, oblig_queries=0, solver_s=0.0, nontrivial=0, decisions=0, feas_unknown=0)
    fn_records = set()
    samples = []
    undecided_samples = []
    oblig_samples = []
    cut_problems = []
    reach_problems = []
    notes: Dict[str, int] = {}
    all_candidates = []
    all_known_hits = []
    cross = {'exported': 0, 'agree': 0, 'inconclusive': 0, 'disagree': 0}
    for h in hs:
        agg[h.name] = dict(units=0, paths=0, cut=0, cut_kinds={}, obligations=0, discharged=0, undecided=0,
                           candidates=0, known_hits=0, by={}, checks={}, reached={}, wall_s=0.0,
                           feas_queries=0, oblig_queries=0, solver_s=0.0, bounds=h.bounds)
    for r in results:
        if r.get('error') and 'paths' not in r:
            continue
        a = agg[r['harness']]
        a['units'] += 1
        a['paths'] += r['paths']
        a['cut'] += r['cut']
        a['wall_s'] += r['wall_s']
        a['feas_queries'] += r['feas_queries']
        a['oblig_queries'] += r['oblig_queries']
        a['solver_s'] += r['feas_solver_s'] + r['oblig_solver_s']
        for k, v in r['cut_kinds'].items():
            a['cut_kinds'][k] = a['cut_kinds'].get(k, 0) + v
        for k, v in r['reached'].items():
            a['reached'][k] = a['reached'].get(k, 0) + v
        for cn, c in r['checks'].items():
            cc = a['checks'].setdefault(cn, dict(n=0, discharged=0, undecided=0, candidates=0, known_hits=0))
            for k in ('n', 'discharged', 'undecided', 'candidates', 'known_hits'):
                cc[k] += c[k]
            a['obligations'] += c['n']
            a['discharged'] += c['discharged']
            a['undecided'] += c['undecided']
            a['candidates'] += c['candidates']
            a['known_hits'] += c['known_hits']
            for k, v in c['by'].items():
                a['by'][k] = a['by'].get(k, 0) + v
            if c.get('sample') and len(oblig_samples) < 6:
                s = dict(c['sample'])
                s['harness'] = r['harness']
                oblig_samples.append(s)
        total['paths'] += r['paths']
        total['cut'] += r['cut']
        total['decisions'] += r['decisions']
        total['feas_queries'] += r['feas_queries']
        total['feas_unknown'] += r['feas_unknown']
        total['oblig_queries'] += r['oblig_queries']
        total['solver_s'] += r['feas_solver_s'] + r['oblig_solver_s']
        total['nontrivial'] += r['nontrivial_paths']
        for f in r['functions']:
            fn_records.add(tuple(f))
        for s in r['samples']:
            if len(samples) < 6:
                samples.append(s)
        for u in r['undecided']:
            if len(undecided_samples) < 10:
                u = dict(u)
                u['harness'] = r['harness']
                u['config'] = r['config']
                undecided_samples.append(u)
        for k, v in r['assumption_notes'].items():
            notes[k] = notes.get(k, 0) + v
        all_candidates += r['candidates']
        all_known_hits += r['known_hits']
        for k, v in (r.get('cross') or {}).items():
            cross[k] = cross.get(k, 0) + v
    for h in hs:
        a = agg[h.name]
        for k in ('obligations', 'discharged', 'undecided', 'candidates', 'known_hits'):
            total[k] += a[k]
        for tag in h.must_reach:
            if a['reached'].get(tag, 0) == 0 and a['units'] > 0:
                reach_problems.append(f'{h.name}: never reached {tag!r} (vacuous harness?)')
        for k, v in a['cut_kinds'].items():
            kind = k.split(':')[1]
            if kind in ('assume', 'infeasible'):
                continue
            if kind == 'declared' and any(k.endswith(':' + ac) or ac == '*' for ac in h.allow_cut):
                continue
            cut_problems.append(f'{h.name}: {v} path(s) cut: {k}')

    # ---- candidates -> native replay.  Every candidate is replayed in-process (the stubs are transparent on concrete
    # values); one representative per (harness, check, first config value) is then confirmed in a FRESH interpreter with
    # no stub installed before a VIOLATION line is printed.
    violations = []
    unconfirmed = []
    also = []
    groups: Dict[Any, list] = {}
    reproduced_keys = set()
    refine_budget = [12]
    for cand in all_candidates:
        key = (cand['harness'], json.dumps(cand['config'], sort_keys=True, default=str), cand['check'])
        if key in reproduced_keys:
            continue
        fl, _, ab = replay_inprocess(cand['harness'], cand['config'], cand['inputs'], prop)
        if not fl and refine_budget[0] > 0:
            refine_budget[0] -= 1
            better = refine_natively(cand, prop)
            if better is not None:
                cand, fl = better, True
        if fl:
            reproduced_keys.add(key)
            cfg0 = next(iter(cand['config'].values()), None) if cand['config'] else None
            groups.setdefault((cand['harness'], cand['check'], json.dumps(cfg0, default=str)), []).append(cand)
        else:
            unconfirmed.append(cand)
    unconfirmed = [c for c in unconfirmed
                   if (c['harness'], json.dumps(c['config'], sort_keys=True, default=str), c['check']) not in reproduced_keys]
    from concurrent.futures import ThreadPoolExecutor
    reps = [(g, cs[0]) for g, cs in sorted(groups.items())][:int(os.environ.get('VERIF_MAX_CONFIRM', '24'))]
    with ThreadPoolExecutor(8) as ex:
        paths = list(ex.map(lambda gc: confirm(gc[1], prop, 0), reps))
    for (g, cand), path in zip(reps, paths):
        if path:
            violations.append((g, path, cand))
            also += [c for c in groups[g][1:]]
        else:
            unconfirmed.append(cand)
    for g, cs in sorted(groups.items())[len(reps):]:
        also += cs
    known_lines = {}
    for cand in all_known_hits:
        kid = cand['known']
        if kid in known_lines:
            continue
        fl, _, _ = replay_inprocess(cand['harness'], cand['config'], cand['inputs'], prop)
        if fl:
            e = next(e for e in known_all if e['id'] == kid)
            known_lines[kid] = f'KNOWN-FINDING: property={prop} {e["what"]} [harness={cand["harness"]} ' \
                               f'check={cand["check"]} inputs={json.dumps({k: (v["float"] if isinstance(v, dict) else v) for k, v in cand["inputs"].items()})}]'
        else:
            unconfirmed.append(cand)

    wall = time.time() - t0
    status = EXIT_OK
    msgs = []
    if errors:
        status = EXIT_HARNESS
        for r in errors[:5]:
            msgs.append(f'HARNESS-ERROR property={prop} harness={r["harness"]} config={r["config"]}\n{r["error"]}')
    if timeouts:
        status = EXIT_HARNESS
        for r in timeouts[:5]:
            msgs.append(f'INCONCLUSIVE property={prop} harness={r["harness"]} config={r["config"]}: {r["timeout"]}')
    if reach_problems or cut_problems:
        status = EXIT_HARNESS
        msgs += ['HARNESS-ERROR ' + m for m in reach_problems + cut_problems]
    if total['undecided'] or unconfirmed:
        status = EXIT_HARNESS
        msgs.append(f'INCONCLUSIVE property={prop} undecided={total["undecided"]} unconfirmed_candidates={len(unconfirmed)}')
        for u in undecided_samples[:5]:
            msgs.append('  undecided: ' + json.dumps(u, default=str)[:600])
        for c in unconfirmed[:5]:
            msgs.append('  unconfirmed: ' + json.dumps({k: c[k] for k in ("harness", "config", "check", "inputs")}, default=str)[:600])
    if cross['disagree']:
        status = EXIT_HARNESS
        msgs.append(f'HARNESS-ERROR property={prop}: cvc5 answered sat on {cross["disagree"]} obligation(s) z3 discharged as unsat')
    if violations:
        status = EXIT_VIOLATION

    hdefs = {h.name: h for h in hs}
    evidence = {
        'property_id': prop, 'tier': tier, 'seed': seed, 'level': 'other',
        'coverage': {
            'explanation': ('Symbolic execution of the real functions of /repo (imported fresh in this run) by the symx engine: '
                            'inputs are z3 constants, every branch on a symbolic value forks the path after a z3 feasibility '
                            'query, and every property assertion is an SMT obligation decided for all values on the path '
                            '(unsat = holds on the whole path; sat = concrete inputs, replayed natively in a fresh interpreter '
                            'before being reported). Bounds per harness are listed under harnesses.*.bounds.'),
            'evaluations': total['feas_queries'] + total['oblig_queries'],
            'distinct_nontrivial': total['nontrivial'],
            'rule': ('evaluations = SMT queries discharged (path feasibility + obligations); distinct_nontrivial = distinct '
                     'feasible decision traces (paths) on which the solver did work: at least one branch on a symbolic value was decided '
                     'by a feasibility query, or at least one obligation was not closed by term simplification alone'),
            'samples': (samples + oblig_samples)[:10] or [{'note': 'no path samples recorded'}],
            'obligations': total['obligations'], 'discharged': total['discharged'],
            'undecided': total['undecided'], 'candidates': total['candidates'],
            'known_finding_hits': total['known_hits'],
            'paths': total['paths'], 'paths_cut': total['cut'], 'decisions': total['decisions'],
            'solver': {'name': 'z3', 'version': _z3_version(), 'feasibility_queries': total['feas_queries'],
                       'feasibility_unknown': total['feas_unknown'],
                       'obligation_queries': total['oblig_queries'], 'solver_seconds': round(total['solver_s'], 3)},
            'harnesses': {n: {k: (round(v, 3) if isinstance(v, float) else v) for k, v in a.items()} for n, a in agg.items()},
            'cvc5_cross_check': dict(cross, note='thorough tier only: up to 2 z3-unsat obligations per check name and work unit are exported as SMT-LIB 2 and re-decided by the cvc5 1.0.3 binary (20 s); inconclusive = timeout / unknown / unsupported'),
            'functions_encoded': _src_hashes(sorted(fn_records)),
            'stubs': sorted({s for h in hs for s in h.stubs}),
            'outside_the_claim': sorted({s for h in hs for s in h.outside}),
            'reachability_witnesses': {h.name: {t: agg[h.name]['reached'].get(t, 0) for t in h.must_reach} for h in hs},
            'undecided_samples': undecided_samples,
            'violations': [{'replay': p, 'harness': c['harness'], 'config': c['config'], 'check': c['check']}
                           for _, p, c in violations],
            'violating_configs_replayed_in_process_only': [{'harness': c['harness'], 'config': c['config'], 'check': c['check']}
                                                            for c in also][:200],
            'known_findings_reproduced': sorted(known_lines),
            'exhaustive': False,
            'jobs': jobs,
            'exit_status': status,
        },
        'assumptions': sorted({s for h in hs for s in h.assumptions} | {f'{k} (x{v})' for k, v in notes.items()}),
        'wall_s': round(wall, 2),
        'violations': len(violations),
    }
    # runs against a scratch tree (PYBC_REPO: seeded changes, mutants) must not overwrite the evidence of /repo itself
    evdir = os.environ.get('VERIF_EVIDENCE_DIR') or os.path.join(VERIF, 'evidence')
    os.makedirs(evdir, exist_ok=True)
    if not only:
        with open(os.path.join(evdir, f'{prop}.json'), 'w') as f:
            json.dump(evidence, f, indent=1, default=str)

    for ln in known_lines.values():
        print(ln)
    for m in msgs:
        print(m)
    for _, p, c in violations:
        print(f'VIOLATION property={prop} replay={p}')
        print(f'  harness={c["harness"]} config={json.dumps(c["config"], default=str)} check={c["check"]} '
              f'inputs={json.dumps({k: (v["float"] if isinstance(v, dict) else v) for k, v in c["inputs"].items()}, default=str)[:500]}')
    print(f'{prop} {tier}: harnesses={len(hs)} units={len(units)} paths={total["paths"]} (cut {total["cut"]}) '
          f'obligations={total["obligations"]} discharged={total["discharged"]} undecided={total["undecided"]} '
          f'violations={len(violations)} known={len(known_lines)} queries={total["feas_queries"] + total["oblig_queries"]} '
          f'solver_s={total["solver_s"]:.1f} wall_s={wall:.1f} exit={status}')
    return status


def _z3_version():
    try:
        import z3
        return z3.get_version_string()
    except Exception:
        return '?'
