"""Bit-precise IEEE-754 encoding of straight-line float code by operator overloading: the real to_raw / from_raw of a unit run on an
FPX value and every arithmetic operation becomes an SMT-LIB (QF_BVFP, binary64, round-nearest-even) term, constants by their exact
bit pattern.  Anything else (comparison, math function, int conversion) raises NotEncodable: the unit is then left to the
rounding-error model of C06.roundtrip."""
import struct
import subprocess
import tempfile
import os


class NotEncodable(Exception):
    pass


def const(v: float) -> str:
    b = struct.unpack('>Q', struct.pack('>d', float(v)))[0]
    return f'(fp #b{b >> 63:01b} #b{(b >> 52) & 0x7FF:011b} #x{b & ((1 << 52) - 1):013x})'


class FPX:
    __slots__ = ('t', 'ops')

    def __init__(self, t, ops=0):
        self.t, self.ops = t, ops

    @staticmethod
    def _lift(o):
        if isinstance(o, FPX):
            return o
        if isinstance(o, bool) or not isinstance(o, (int, float)):
            raise NotEncodable(f'operand {o!r}')
        return FPX(const(float(o)))

    def _bin(self, op, o, swap=False):
        o = self._lift(o)
        a, b = (o, self) if swap else (self, o)
        return FPX(f'(fp.{op} RNE {a.t} {b.t})', a.ops + b.ops + 1)

    def __mul__(self, o): return self._bin('mul', o)
    def __rmul__(self, o): return self._bin('mul', o, True)
    def __truediv__(self, o): return self._bin('div', o)
    def __rtruediv__(self, o): return self._bin('div', o, True)
    def __add__(self, o): return self._bin('add', o)
    def __radd__(self, o): return self._bin('add', o, True)
    def __sub__(self, o): return self._bin('sub', o)
    def __rsub__(self, o): return self._bin('sub', o, True)
    def __neg__(self): return FPX(f'(fp.neg {self.t})', self.ops)

    def _no(self, *a, **k):
        raise NotEncodable('operation other than + - * / on the traced value')
    __bool__ = __lt__ = __le__ = __gt__ = __ge__ = __eq__ = __ne__ = __float__ = __int__ = __mod__ = __pow__ = __abs__ = __round__ = __floordiv__ = _no
    __hash__ = None


def within_ulps_query(term: str, ulps: int, lo_exp: int = -500, hi_exp: int = 500) -> str:
    """SMT-LIB 2 script: is there a finite x with 2^lo <= |x| <= 2^hi whose image `term` (a function of x) is more than `ulps` units in the
    last place away from x (bit patterns of equal sign differ by more than `ulps`)?  unsat = the round trip is within `ulps` ulps for all such x"""
    def p2(e):
        return f'(fp #b0 #b{e + 1023:011b} #x{0:013x})'
    near = ' '.join([f'(= rb (bvadd xb #x{k:016x})) (= xb (bvadd rb #x{k:016x}))' for k in range(1, ulps + 1)])
    return f"""(set-logic QF_BVFP)
(set-option :produce-models true)
(declare-fun xb () (_ BitVec 64))
(declare-fun rb () (_ BitVec 64))
(define-fun x () (_ FloatingPoint 11 53) ((_ to_fp 11 53) xb))
(define-fun r () (_ FloatingPoint 11 53) {term})
(assert (not (fp.isNaN x)))
(assert (not (fp.isInfinite x)))
(assert (fp.leq {p2(lo_exp)} (fp.abs x)))
(assert (fp.leq (fp.abs x) {p2(hi_exp)}))
(assert (= ((_ to_fp 11 53) rb) r))
(assert (not (or (= rb xb) {near})))
(check-sat)
(get-value (xb))
"""


def run_cvc5(script: str, seconds: int):
    """('unsat' | 'sat' | 'unknown', x or None)"""
    fd, path = tempfile.mkstemp(suffix='.smt2')
    try:
        with os.fdopen(fd, 'w') as f:
            f.write(script)
        try:
            out = subprocess.run(['cvc5', f'--tlimit={seconds * 1000}', path], capture_output=True, text=True, timeout=seconds + 20).stdout
        except (subprocess.TimeoutExpired, OSError):
            return 'unknown', None
    finally:
        try:
            os.remove(path)
        except OSError:
            pass
    lines = out.strip().splitlines()
    if not lines:
        return 'unknown', None
    if lines[0].strip() == 'unsat':
        return 'unsat', None          # (the get-value that follows has no model to report: its error line is expected)
    if '(error' in out:
        return 'unknown', None
    if lines[0].strip() == 'sat':
        import re
        m = re.search(r'#b([01]{64})', out) or re.search(r'#x([0-9a-fA-F]{16})', out)
        if m:
            bits = int(m.group(1), 2 if len(m.group(1)) == 64 else 16)
            return 'sat', struct.unpack('>d', struct.pack('>Q', bits))[0]
        return 'sat', None
    return 'unknown', None
