"""Process state of the package under test: captured once, put back at the start of every path / native replay.

Path exploration re-executes the harness once per path in ONE process, and native replays of several candidates share a
process too.  State that the code under test keeps outside the objects a harness creates - module globals, class attributes,
module-level containers, functools caches - would leak from one path into the next (symbolic terms of a finished path, or
simply a different starting state than a user's fresh process), so a path would no longer be a function of its decisions.
The pinned tree keeps almost no such state; a CHANGED tree may (memo tables, "resolved once" class attributes, shared
default objects), and the harnesses must then see exactly what a fresh process sees.
"""
import sys
import types

PKG = 'py_ballisticcalc'
_ATOM = (int, float, str, bytes, bool, type(None), complex, tuple, frozenset)


def _is_pkg_module(name, m):
    return m is not None and (name == PKG or name.startswith(PKG + '.'))


class _Snap:
    __slots__ = ('obj', 'kind', 'items')

    def __init__(self, obj, depth, seen):
        self.obj = obj
        self.kind = None
        self.items = None
        if id(obj) in seen or depth > 5:
            return
        if isinstance(obj, dict):
            seen.add(id(obj))
            self.kind = 'dict'
            self.items = [(k, v, _Snap(v, depth + 1, seen)) for k, v in list(obj.items())]
        elif isinstance(obj, list):
            seen.add(id(obj))
            self.kind = 'list'
            self.items = [(v, _Snap(v, depth + 1, seen)) for v in list(obj)]
        elif isinstance(obj, set):
            seen.add(id(obj))
            self.kind = 'set'
            self.items = list(obj)
        elif hasattr(obj, '__dict__') and not isinstance(obj, (type, types.ModuleType, types.FunctionType, types.MethodType)) \
                and getattr(type(obj), '__module__', '').startswith(PKG) and isinstance(getattr(obj, '__dict__', None), dict):
            seen.add(id(obj))
            self.kind = 'inst'
            self.items = [(k, v, _Snap(v, depth + 1, seen)) for k, v in list(vars(obj).items())]

    def restore(self):
        k = self.kind
        if k is None:
            return
        o = self.obj
        if k == 'dict':
            if len(o) != len(self.items) or any((key not in o or o[key] is not v) for key, v, _ in self.items):
                o.clear()
                for key, v, _ in self.items:
                    o[key] = v
            for _, _, s in self.items:
                s.restore()
        elif k == 'list':
            if len(o) != len(self.items) or any(a is not v for a, (v, _) in zip(o, self.items)):
                o[:] = [v for v, _ in self.items]
            for _, s in self.items:
                s.restore()
        elif k == 'set':
            if len(o) != len(self.items) or any(v not in o for v in self.items):
                o.clear()
                o.update(self.items)
        elif k == 'inst':
            d = vars(o)
            if len(d) != len(self.items) or any((key not in d or d[key] is not v) for key, v, _ in self.items):
                d.clear()
                for key, v, _ in self.items:
                    d[key] = v
            for _, _, s in self.items:
                s.restore()


class ProcessState:
    def __init__(self):
        self.mod_globals = []      # (module dict, name, value, snap)
        self.cls_attrs = []        # (class, name, value, snap)
        self.caches = []
        self.mod_names = []        # (module dict, set of names) to drop names that appear later
        seen = set()
        classes = []
        for name, m in list(sys.modules.items()):
            if not _is_pkg_module(name, m):
                continue
            g = vars(m)
            self.mod_names.append((g, set(g)))
            for k, v in list(g.items()):
                if k.startswith('__') and k.endswith('__'):
                    continue
                if isinstance(v, types.ModuleType):
                    continue
                if hasattr(v, 'cache_clear') and callable(getattr(v, 'cache_clear', None)):
                    self.caches.append(v)
                if isinstance(v, type):
                    if getattr(v, '__module__', '').startswith(PKG) and v not in classes:
                        classes.append(v)
                    self.mod_globals.append((g, k, v, None))
                    continue
                self.mod_globals.append((g, k, v, _Snap(v, 0, seen)))
        for c in classes:
            for k, v in list(vars(c).items()):
                if k in ('__dict__', '__weakref__', '__doc__', '__module__', '__qualname__', '__annotations__', '__slots__'):
                    continue
                f = getattr(v, '__func__', v)
                for w in (v, f, getattr(v, 'fget', None)):
                    if w is not None and callable(getattr(w, 'cache_clear', None)):
                        self.caches.append(w)
                if isinstance(v, (types.FunctionType, staticmethod, classmethod, property, types.MemberDescriptorType,
                                  types.GetSetDescriptorType, types.WrapperDescriptorType, types.MethodDescriptorType)):
                    self.cls_attrs.append((c, k, v, None))
                    continue
                self.cls_attrs.append((c, k, v, _Snap(v, 0, seen)))
            self.cls_attrs.append((c, None, set(vars(c)), None))

    def restore(self):
        for c in self.caches:
            try:
                c.cache_clear()
            except Exception:
                pass
        for g, k, v, snap in self.mod_globals:
            if k not in g or g[k] is not v:
                g[k] = v
            if snap is not None:
                snap.restore()
        for g, names in self.mod_names:
            for k in [k for k in g if k not in names]:
                del g[k]
        for c, k, v, snap in self.cls_attrs:
            if k is None:
                for extra in [a for a in vars(c) if a not in v]:
                    try:
                        delattr(c, extra)
                    except Exception:
                        pass
                continue
            cur = vars(c).get(k, _MISSING)
            if cur is not v:
                try:
                    setattr(c, k, v)
                except Exception:
                    pass
            if snap is not None:
                snap.restore()


_MISSING = object()
_STATE = None


def capture():
    """capture (once per process, after the stubs were installed)"""
    global _STATE
    if _STATE is None:
        _STATE = ProcessState()
    return _STATE


def restore():
    if _STATE is not None:
        _STATE.restore()
