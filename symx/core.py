"""symx core: symbolic execution of real Python code objects by operator overloading + z3.

Values
    SymFloat  - float subclass (C payload NaN) wrapping a z3 Real term
    SymBool   - wraps a z3 Bool term; __bool__ asks the engine for a decision (fork point)
    SymInt    - wraps a z3 Int term (only what the harnesses need)
Engine
    depth-first path exploration by re-execution with a decision prefix
Ctx / ConcreteCtx
    the two interpretations of one harness function: symbolic (solver decides every check for
    all values on the path) and concrete (native replay of one input assignment)
"""
from __future__ import annotations

import math
import time
import traceback
from fractions import Fraction
from typing import Any, Callable, Dict, List, Optional, Tuple

import z3

# --------------------------------------------------------------------------------------------
# exceptions used for path steering derive from BaseException so that `except Exception` in the
# code under test (e.g. `except ZeroDivisionError`, `except (KeyError, TypeError)`) never eats them


class PathAbort(BaseException):
    """cut the current path (declared bound reached / infeasible / assumption false)"""

    def __init__(self, kind: str, msg: str = ''):
        super().__init__(kind, msg)
        self.kind = kind
        self.msg = msg


class HarnessError(BaseException):
    """the machinery (not the code under test) is wrong; maps to exit code 3"""


class SymLeak(HarnessError):
    """a symbolic value reached an operation the engine does not model"""


_ENGINE: Optional['Engine'] = None


def engine() -> 'Engine':
    if _ENGINE is None:
        raise HarnessError('no active engine')
    return _ENGINE


def active() -> bool:
    return _ENGINE is not None


# --------------------------------------------------------------------------------------------
# term helpers

_RV_CACHE: Dict[Any, z3.ArithRef] = {}


def realval(x) -> z3.ArithRef:
    """exact z3 numeral of a Python number (floats by their exact binary value)"""
    if isinstance(x, bool):
        x = int(x)
    key = (type(x).__name__, x)
    r = _RV_CACHE.get(key)
    if r is not None:
        return r
    if isinstance(x, int):
        r = z3.RealVal(x)
    elif isinstance(x, Fraction):
        r = z3.RealVal(str(x.numerator)) / z3.RealVal(str(x.denominator)) if x.denominator != 1 else z3.RealVal(str(x.numerator))
        r = z3.simplify(r)
    elif isinstance(x, float):
        if x != x or x in (math.inf, -math.inf):
            raise SymLeak(f'non-finite concrete float {x!r} mixed with a symbolic value '
                          f'(a SymFloat probably leaked through a C-level call)')
        n, d = x.as_integer_ratio()
        r = z3.Q(n, d)
    else:
        raise TypeError(type(x))
    if len(_RV_CACHE) < 200000:
        _RV_CACHE[key] = r
    return r


def lift(x):
    """z3 Real term of a number-like Python object, or None when it is not one"""
    if isinstance(x, SymFloat):
        return x.t
    if isinstance(x, SymInt):
        return z3.ToReal(x.t)
    if isinstance(x, (bool, int, float, Fraction)):
        return realval(x)
    return None


def is_sym(x) -> bool:
    return isinstance(x, (SymFloat, SymBool, SymInt))


def term_is_num(t) -> bool:
    return z3.is_rational_value(t) or z3.is_int_value(t) or z3.is_algebraic_value(t)


def num_of(t) -> Fraction:
    if z3.is_int_value(t):
        return Fraction(t.as_long())
    return Fraction(t.numerator_as_long(), t.denominator_as_long())


def wrap_real(t) -> Any:
    """SymFloat for a term, or a plain float when the term is a numeral that is exactly a double"""
    return SymFloat(t)


def syntactically_nonneg(t, depth=0) -> bool:
    """sum of squares / even powers / non-negative numerals (cheap, no solver)"""
    if depth > 6:
        return False
    if term_is_num(t):
        return not z3.is_algebraic_value(t) and num_of(t) >= 0
    if not z3.is_app(t):
        return False
    k = t.decl().kind()
    ch = t.children()
    if k == z3.Z3_OP_ADD:
        return all(syntactically_nonneg(c, depth + 1) for c in ch)
    if k == z3.Z3_OP_POWER:
        return term_is_num(ch[1]) and num_of(ch[1]).denominator == 1 and int(num_of(ch[1])) % 2 == 0
    if k == z3.Z3_OP_MUL:
        rest = []
        for c in ch:
            if term_is_num(c):
                if num_of(c) < 0:
                    return False
                continue
            rest.append(c)
        # pair up syntactically equal factors
        while rest:
            c = rest.pop()
            if syntactically_nonneg(c, depth + 1):
                continue
            for i, d in enumerate(rest):
                if d.eq(c):
                    rest.pop(i)
                    break
            else:
                return False
        return True
    return False


def is_linear(t, _memo=None) -> bool:
    """syntactic check: no product/quotient/power of two non-numeral factors"""
    if _memo is None:
        _memo = {}
    k = t.get_id()
    if k in _memo:
        return _memo[k]
    r = True
    if z3.is_app(t):
        kind = t.decl().kind()
        ch = t.children()
        if kind == z3.Z3_OP_MUL:
            if sum(0 if term_is_num(c) else 1 for c in ch) > 1:
                r = False
        elif kind in (z3.Z3_OP_DIV, z3.Z3_OP_IDIV, z3.Z3_OP_MOD, z3.Z3_OP_REM):
            if not term_is_num(ch[1]):
                r = False
        elif kind == z3.Z3_OP_POWER:
            r = False
        if r:
            for c in ch:
                if not is_linear(c, _memo):
                    r = False
                    break
    _memo[k] = r
    return r


# --------------------------------------------------------------------------------------------


class SymBool:
    __slots__ = ('t',)

    def __init__(self, t):
        self.t = t

    def __bool__(self):
        return engine().decide(self.t)

    # logical combination without forking
    def __and__(self, o):
        o = _boolterm(o)
        return NotImplemented if o is None else mkbool(z3.And(self.t, o))

    __rand__ = __and__

    def __or__(self, o):
        o = _boolterm(o)
        return NotImplemented if o is None else mkbool(z3.Or(self.t, o))

    __ror__ = __or__

    def __invert__(self):
        return mkbool(z3.Not(self.t))

    def __xor__(self, o):
        o = _boolterm(o)
        return NotImplemented if o is None else mkbool(z3.Xor(self.t, o))

    # bool ordering (False < True); C bisect compares `wrapper[mid] < True`
    def _as_int(self):
        return z3.If(self.t, z3.IntVal(1), z3.IntVal(0))

    def _cmp(self, o, op):
        if isinstance(o, SymBool):
            b = o._as_int()
        elif isinstance(o, (bool, int)):
            b = z3.IntVal(int(o))
        else:
            return NotImplemented
        return mkbool(op(self._as_int(), b))

    def __lt__(self, o):
        return self._cmp(o, lambda a, b: a < b)

    def __le__(self, o):
        return self._cmp(o, lambda a, b: a <= b)

    def __gt__(self, o):
        return self._cmp(o, lambda a, b: a > b)

    def __ge__(self, o):
        return self._cmp(o, lambda a, b: a >= b)

    def __eq__(self, o):
        return self._cmp(o, lambda a, b: a == b)

    def __ne__(self, o):
        return self._cmp(o, lambda a, b: a != b)

    __hash__ = None  # type: ignore

    def __repr__(self):
        return f'SymBool({self.t})'


def _boolterm(o):
    if isinstance(o, SymBool):
        return o.t
    if isinstance(o, bool):
        return z3.BoolVal(o)
    if isinstance(o, z3.BoolRef):
        return o
    return None


def mkbool(t):
    """python bool when the term simplifies to a constant, SymBool otherwise"""
    s = z3.simplify(t)
    if z3.is_true(s):
        return True
    if z3.is_false(s):
        return False
    return SymBool(s)


def boolterm(x) -> z3.BoolRef:
    t = _boolterm(x)
    if t is None:
        raise TypeError(f'not a boolean: {x!r}')
    return t


# --------------------------------------------------------------------------------------------


class SymFloat(float):
    """float subclass so that isinstance(x, (int, float)) in the code under test passes.
    The C-level value is NaN: any leak into C code poisons the result instead of concretising."""
    __slots__ = ('t',)

    def __new__(cls, term):
        o = float.__new__(cls, 'nan')
        o.t = term
        return o

    # ---- arithmetic
    def _bin(self, o, f, swap=False):
        b = lift(o)
        if b is None:
            return NotImplemented
        a = self.t
        if swap:
            a, b = b, a
        return _rounded(f(a, b))

    def __add__(self, o):
        return self._bin(o, lambda a, b: a + b)

    def __radd__(self, o):
        return self._bin(o, lambda a, b: a + b, True)

    def __sub__(self, o):
        return self._bin(o, lambda a, b: a - b)

    def __rsub__(self, o):
        return self._bin(o, lambda a, b: a - b, True)

    def __mul__(self, o):
        return self._bin(o, lambda a, b: a * b)

    def __rmul__(self, o):
        return self._bin(o, lambda a, b: a * b, True)

    def __truediv__(self, o):
        b = lift(o)
        if b is None:
            return NotImplemented
        return _div(self.t, b)

    def __rtruediv__(self, o):
        a = lift(o)
        if a is None:
            return NotImplemented
        return _div(a, self.t)

    def __neg__(self):
        return SymFloat(-self.t)

    def __pos__(self):
        return self

    def __abs__(self):
        return SymFloat(z3.If(self.t >= 0, self.t, -self.t))

    def __pow__(self, o, mod=None):
        if mod is not None:
            raise SymLeak('3-argument pow on SymFloat')
        return sym_pow(self, o)

    def __rpow__(self, o):
        return sym_pow(o, self)

    def __mod__(self, o):
        b = lift(o)
        if b is None:
            return NotImplemented
        return _mod(self.t, b)

    def __rmod__(self, o):
        a = lift(o)
        if a is None:
            return NotImplemented
        return _mod(a, self.t)

    def __floordiv__(self, o):
        b = lift(o)
        if b is None:
            return NotImplemented
        return SymFloat(z3.ToReal(_floor_term(_div(self.t, b).t)))

    def __rfloordiv__(self, o):
        a = lift(o)
        if a is None:
            return NotImplemented
        return SymFloat(z3.ToReal(_floor_term(_div(a, self.t).t)))

    def __divmod__(self, o):
        return self.__floordiv__(o), self.__mod__(o)

    def __rdivmod__(self, o):
        return self.__rfloordiv__(o), self.__rmod__(o)

    # ---- comparisons
    def _cmp(self, o, f):
        b = lift(o)
        if b is None:
            return NotImplemented
        return mkbool(f(self.t, b))

    def __lt__(self, o):
        return self._cmp(o, lambda a, b: a < b)

    def __le__(self, o):
        return self._cmp(o, lambda a, b: a <= b)

    def __gt__(self, o):
        return self._cmp(o, lambda a, b: a > b)

    def __ge__(self, o):
        return self._cmp(o, lambda a, b: a >= b)

    def __eq__(self, o):
        return self._cmp(o, lambda a, b: a == b)

    def __ne__(self, o):
        return self._cmp(o, lambda a, b: a != b)

    def __bool__(self):
        return engine().decide(self.t != 0)

    # ---- traps / conversions
    def __hash__(self):
        return engine().on_hash(self)

    def __floor__(self):
        return SymInt(_floor_term(self.t))

    def __ceil__(self):
        return SymInt(-_floor_term(-self.t))

    def __trunc__(self):
        return SymInt(z3.If(self.t >= 0, _floor_term(self.t), -_floor_term(-self.t)))

    def __float__(self):
        return self

    def __int__(self):
        # int() must return a real int: fork over the (few) values the truncation can take on this path
        return self.__trunc__().__index__()

    def __index__(self):
        raise TypeError("'float' object cannot be interpreted as an integer")

    def __round__(self, n=None):
        return engine().on_round(self, n)

    def __format__(self, spec):
        return '<sym>'

    def __str__(self):
        return '<sym>'

    def __repr__(self):
        s = str(self.t)
        return f'SymFloat({s if len(s) < 120 else s[:117] + "..."})'

    def is_integer(self):
        return engine().decide(self.t == z3.ToReal(_floor_term(self.t)))

    def __reduce__(self):
        raise SymLeak('pickling SymFloat')


def _div(a, b):
    """Python true division: ZeroDivisionError when the divisor is zero (forks if it can be)"""
    eng = engine()
    if term_is_num(b):
        if num_of(b) == 0:
            raise ZeroDivisionError('float division by zero')
        return _rounded(a / b)
    if eng.div_check:
        if eng.decide(b == 0):
            raise ZeroDivisionError('float division by zero')
    else:
        eng.note_assumption('divisors are non-zero')
        eng.add_axiom(b != 0)
    return _rounded(a / b)


U53 = None
SYM_HASH = 0x53594D58


def _rounded(t):
    """standard model of floating point arithmetic (optional, Engine.fp_model): fl(x op y) = (x op y)(1+d),
    |d| <= 2^-53 (no overflow/underflow)"""
    eng = _ENGINE
    if eng is None or not eng.fp_model:
        return SymFloat(t)
    global U53
    if U53 is None:
        U53 = realval(Fraction(1, 2 ** 53))
    # additive form e = t*d: |e| <= u*|t| keeps the constraints linear whenever t is linear
    e = eng.fresh_real('fpe')
    eng.fp_ops += 1
    a = z3.If(t >= 0, t, -t)
    eng.add_axiom(z3.And(e <= U53 * a, e >= -U53 * a))
    return SymFloat(t + e)


def _floor_term(t):
    """integer term k with k <= t < k + 1 (one k per distinct argument on a path)"""
    eng = engine()
    t = z3.simplify(t)
    if term_is_num(t) and not z3.is_algebraic_value(t):
        return z3.IntVal(math.floor(num_of(t)))
    key = ('floor', t.sexpr())
    hit = eng.summaries.get(key)
    if hit is not None:
        return hit[0]
    k = eng.fresh_int('floor')
    eng.add_axiom(z3.And(z3.ToReal(k) <= t, t < z3.ToReal(k) + 1))
    eng.summaries[key] = (k, [])
    return k


def _mod(a, b):
    """Python's a % b = a - b*floor(a/b) (sign of the divisor; ZeroDivisionError forks).
    For b a positive numeral: a - k*b with integer k, 0 <= result < b"""
    if not term_is_num(b) or num_of(b) <= 0:
        q = _floor_term(_div(a, b).t)
        return SymFloat(a - b * z3.ToReal(q))
    eng = engine()
    key = ('mod', z3.simplify(a).sexpr() + '|' + b.sexpr())
    hit = eng.summaries.get(key)
    if hit is not None:
        return SymFloat(hit[0])
    k = eng.fresh_int('modq')
    r = a - z3.ToReal(k) * b
    eng.add_axiom(z3.And(r >= 0, r < b))
    eng.summaries[key] = (r, [])
    return SymFloat(r)


def sym_pow(x, y):
    """x ** y / math.pow(x, y)"""
    if not is_sym(x) and not is_sym(y):
        return math.pow(x, y)
    if not is_sym(y):
        yf = float(y)
        if yf == int(yf) and 0 <= int(yf) <= 6:
            n = int(yf)
            xt = lift(x)
            r = realval(1)
            for _ in range(n):
                r = r * xt
            return SymFloat(r)
        if yf == int(yf) and -4 <= int(yf) < 0:
            return 1 / sym_pow(x, -int(yf))
    return engine().summary('pow', [lift(x), lift(y)])


class SymInt:
    """integer term; only the operations the harnesses use"""
    __slots__ = ('t',)

    def __init__(self, t):
        self.t = t

    def _l(self, o):
        if isinstance(o, SymInt):
            return o.t
        if isinstance(o, (bool, int)):
            return z3.IntVal(int(o))
        return None

    def __add__(self, o):
        b = self._l(o)
        if b is None:
            return SymFloat(z3.ToReal(self.t)).__add__(o)
        return SymInt(self.t + b)

    __radd__ = __add__

    def __sub__(self, o):
        b = self._l(o)
        if b is None:
            return SymFloat(z3.ToReal(self.t)).__sub__(o)
        return SymInt(self.t - b)

    def __rsub__(self, o):
        b = self._l(o)
        if b is None:
            return SymFloat(z3.ToReal(self.t)).__rsub__(o)
        return SymInt(b - self.t)

    def __truediv__(self, o):
        return SymFloat(z3.ToReal(self.t)).__truediv__(o)

    def __rtruediv__(self, o):
        return SymFloat(z3.ToReal(self.t)).__rtruediv__(o)

    def __neg__(self):
        return SymInt(-self.t)

    def __float__(self):
        return SymFloat(z3.ToReal(self.t))

    def __mul__(self, o):
        b = self._l(o)
        if b is None:
            return SymFloat(z3.ToReal(self.t)).__mul__(o)
        return SymInt(self.t * b)

    __rmul__ = __mul__

    def _cmp(self, o, f):
        b = self._l(o)
        if b is None:
            b = lift(o)
            if b is None:
                return NotImplemented
            return mkbool(f(z3.ToReal(self.t), b))
        return mkbool(f(self.t, b))

    def __lt__(self, o):
        return self._cmp(o, lambda a, b: a < b)

    def __le__(self, o):
        return self._cmp(o, lambda a, b: a <= b)

    def __gt__(self, o):
        return self._cmp(o, lambda a, b: a > b)

    def __ge__(self, o):
        return self._cmp(o, lambda a, b: a >= b)

    def __eq__(self, o):
        return self._cmp(o, lambda a, b: a == b)

    def __ne__(self, o):
        return self._cmp(o, lambda a, b: a != b)

    def __hash__(self):
        engine().note_assumption('symbolic values used as dict/set/cache keys are matched against other symbolic keys only')
        return SYM_HASH

    def __bool__(self):
        return engine().decide(self.t != 0)

    def __pos__(self):
        return self

    def __abs__(self):
        return SymInt(z3.If(self.t >= 0, self.t, -self.t))

    def __floordiv__(self, o):
        b = self._l(o)
        if b is None or not z3.is_int_value(z3.simplify(b)) or z3.simplify(b).as_long() <= 0:
            return SymFloat(z3.ToReal(self.t)).__floordiv__(o)
        return SymInt(self.t / b)          # z3 integer division = floor for a positive divisor

    def __mod__(self, o):
        b = self._l(o)
        if b is None or not z3.is_int_value(z3.simplify(b)) or z3.simplify(b).as_long() <= 0:
            return SymFloat(z3.ToReal(self.t)).__mod__(o)
        return SymInt(self.t % b)

    def __rfloordiv__(self, o):
        return SymFloat(z3.ToReal(self.t)).__rfloordiv__(o)

    def __rmod__(self, o):
        return SymFloat(z3.ToReal(self.t)).__rmod__(o)

    def __pow__(self, o):
        return SymFloat(z3.ToReal(self.t)).__pow__(o)

    def __index__(self):
        """a real int is needed (range(), indexing, int()): fork over the feasible values, at most 64 per site"""
        eng = engine()
        t = z3.simplify(self.t)
        if z3.is_int_value(t):
            return t.as_long()
        for _ in range(64):
            v = eng.pick_int(t)
            if eng.decide(t == v):
                return v
        raise SymLeak('symbolic integer with more than 64 feasible values used as a concrete int')

    __int__ = __index__

    def concretize(self, lo: int, hi: int) -> int:
        """fork over the values lo..hi"""
        eng = engine()
        for v in range(lo, hi):
            if eng.decide(self.t == v):
                return v
        eng.add_axiom(self.t == hi)
        return hi


# --------------------------------------------------------------------------------------------


class NLAbstraction:
    """replace every non-linear subterm (product / quotient / power of non-numerals) by a fresh real, consistently per term:
    a sound over-approximation used for PATH FEASIBILITY only, keeping those queries in linear arithmetic"""

    def __init__(self):
        self.memo = {}      # ast id -> (term kept alive, abstracted term)
        self.vars = {}      # sexpr of nonlinear term -> fresh var

    def __call__(self, t):
        k = t.get_id()
        hit = self.memo.get(k)
        if hit is not None:
            return hit[1]
        r = t
        if z3.is_app(t) and t.num_args() > 0:
            kind = t.decl().kind()
            ch = t.children()
            nl = False
            if kind == z3.Z3_OP_MUL and sum(0 if term_is_num(c) else 1 for c in ch) > 1:
                nl = True
            elif kind in (z3.Z3_OP_DIV, z3.Z3_OP_IDIV, z3.Z3_OP_MOD, z3.Z3_OP_REM) and not term_is_num(ch[1]):
                nl = True
            elif kind == z3.Z3_OP_POWER:
                nl = True
            if nl:
                key = t.sexpr()
                v = self.vars.get(key)
                if v is None:
                    v = self.vars[key] = z3.Real(f'nl!{len(self.vars)}')
                r = v
            else:
                nch = [self(c) for c in ch]
                if any(not a.eq(b) for a, b in zip(nch, ch)):
                    r = t.decl()(*nch)
        self.memo[k] = (t, r)
        return r


class Stats:
    def __init__(self):
        self.queries = 0
        self.solver_s = 0.0
        self.unknown = 0
        self.paths = 0
        self.cut = 0
        self.decisions = 0

    def as_dict(self):
        return dict(self.__dict__)


# wall-clock start of the solver call in progress (None between calls): read by the watchdog thread of symx.runner, which cancels a call
# that ignores its own timeout
CALL_STARTED = [None]


class Engine:
    """one exploration of one harness function"""

    def __init__(self, rlimit: int = 3_000_000, timeout_ms: int = 20000,
                 max_paths: int = 100000, max_decisions: int = 4000, div_check: bool = True,
                 fp_model: bool = False, pin_check: bool = False, nl_axioms_in_feasibility: bool = True):
        self.pin_check = pin_check
        self.nl_axioms_in_feasibility = nl_axioms_in_feasibility
        self.linear_feasibility = not nl_axioms_in_feasibility
        self._nlabs = NLAbstraction()
        self.fp_model = fp_model
        self.fp_ops = 0
        self.rlimit = rlimit
        self.timeout_ms = timeout_ms
        self.max_paths = max_paths
        self.max_decisions = max_decisions
        self.div_check = div_check
        self.stats = Stats()
        self.assumption_notes: Dict[str, int] = {}
        self.solver = z3.Solver()
        self._configure(self.solver, rlimit, timeout_ms)
        self.worklist: List[List[bool]] = []
        # per path
        self.prefix: List[bool] = []
        self.decisions: List[bool] = []
        self.pc: List[z3.BoolRef] = []
        self.axioms: List[z3.BoolRef] = []
        self._lin_memo: Dict[int, bool] = {}
        self.model: Optional[z3.ModelRef] = None
        self.maybe_infeasible = False
        self.summaries: Dict[Tuple[str, str], Tuple[z3.ArithRef, list]] = {}
        self.fresh_n = 0
        self.hash_hook: Optional[Callable] = None
        self.round_hook: Optional[Callable] = None
        self.path_start_hooks: List[Callable] = []

    @staticmethod
    def _configure(s, rlimit, timeout_ms):
        s.set('timeout', timeout_ms)
        if rlimit:
            s.set('rlimit', rlimit)

    # ---- solver access
    def _check(self, *extra) -> str:
        t0 = time.perf_counter()
        if self.linear_feasibility:
            extra = tuple(self._nlabs(e) for e in extra)
        CALL_STARTED[0] = time.time()
        try:
            r = self.solver.check(*extra)
        finally:
            CALL_STARTED[0] = None
        self.stats.solver_s += time.perf_counter() - t0
        self.stats.queries += 1
        s = str(r)
        if s == 'unknown':
            self.stats.unknown += 1
        return s

    def _assert(self, t):
        if self.linear_feasibility:
            t = self._nlabs(t)
        self.solver.add(t)

    def _model_says(self, t) -> Optional[bool]:
        if self.model is None:
            return None
        if self.linear_feasibility:
            t = self._nlabs(t)
        try:
            v = self.model.eval(t, model_completion=True)
        except z3.Z3Exception:
            return None
        if z3.is_true(v):
            return True
        if z3.is_false(v):
            return False
        return None

    # ---- path state
    def _start_path(self, prefix):
        for hook in self.path_start_hooks:
            hook()
        self.solver.reset()
        self._configure(self.solver, self.rlimit, self.timeout_ms)
        self.prefix = prefix
        self.decisions = []
        self.pc = []
        self.axioms = []
        self.model = None
        self.maybe_infeasible = False
        self.summaries = {}
        self.fresh_n = 0
        self.fp_ops = 0
        self._nlabs = NLAbstraction()

    def linear_part(self):
        out = []
        memo = self._lin_memo
        for l in self.axioms + self.pc:
            k = l.get_id()
            v = memo.get(k)
            if v is None:
                v = memo[k] = is_linear(l)
            if v:
                out.append(l)
        return out

    def add_axiom(self, t):
        """definitional constraint / assumption: part of every later query on this path"""
        t = z3.simplify(t) if not isinstance(t, bool) else z3.BoolVal(t)
        if z3.is_true(t):
            return
        self.axioms.append(t)
        self._assert(t)      # (under linear_feasibility the non-linear subterms are abstracted: sound over-approximation)
        if self.model is not None and self._model_says(t) is not True:
            self.model = None

    def assume(self, cond):
        """harness precondition: cut the path when it cannot hold"""
        if isinstance(cond, bool):
            if not cond:
                raise PathAbort('assume', 'assumption false')
            return
        t = boolterm(cond)
        self.add_axiom(t)
        if self.model is None:
            r = self._check()
            if r == 'unsat':
                raise PathAbort('assume', 'assumption infeasible')
            if r == 'sat':
                self.model = self.solver.model()
            else:
                self.maybe_infeasible = True

    def note_assumption(self, s: str):
        self.assumption_notes[s] = self.assumption_notes.get(s, 0) + 1

    def fresh_real(self, base: str):
        self.fresh_n += 1
        return z3.Real(f'{base}!{self.fresh_n}')

    def fresh_int(self, base: str):
        self.fresh_n += 1
        return z3.Int(f'{base}!{self.fresh_n}')

    # ---- decisions
    def decide(self, cond) -> bool:
        c = z3.simplify(cond)
        if z3.is_true(c):
            return True
        if z3.is_false(c):
            return False
        i = len(self.decisions)
        if i >= self.max_decisions:
            raise PathAbort('bound', f'decision bound {self.max_decisions}')
        if i < len(self.prefix):
            d = self.prefix[i]
            if not isinstance(d, bool):
                raise HarnessError('non-deterministic re-execution (expected a recorded decision)')
            lit = c if d else z3.Not(c)
            self.pc.append(lit)
            self._assert(lit)
            self.decisions.append(d)
            if self.model is not None and self._model_says(lit) is not True:
                self.model = None
            return d
        self.stats.decisions += 1
        notc = z3.Not(c)
        ms = self._model_says(c)
        feas_t = feas_f = None
        model_t = model_f = None
        if ms is True:
            feas_t, model_t = True, self.model
        elif ms is False:
            feas_f, model_f = True, self.model
        if feas_t is None:
            r = self._check(c)
            if r == 'sat':
                feas_t, model_t = True, self.solver.model()
            elif r == 'unsat':
                feas_t = False
            else:
                feas_t = True
                self.maybe_infeasible = True
        if feas_f is None:
            r = self._check(notc)
            if r == 'sat':
                feas_f, model_f = True, self.solver.model()
            elif r == 'unsat':
                feas_f = False
            else:
                feas_f = True
                self.maybe_infeasible = True
        if feas_t and feas_f:
            self.worklist.append(self.decisions + [False])
            d = True
        elif feas_t:
            d = True
        elif feas_f:
            d = False
        else:
            raise PathAbort('infeasible', 'path condition became infeasible')
        lit = c if d else notc
        self.pc.append(lit)
        self._assert(lit)
        self.decisions.append(d)
        self.model = model_t if d else model_f
        return d

    def pick_int(self, t) -> int:
        """a feasible value of the integer term t on this path; recorded in the decision trace so that re-execution
        along a prefix picks the same value"""
        i = len(self.decisions)
        if i < len(self.prefix):
            d = self.prefix[i]
            if not (isinstance(d, tuple) and d[0] == 'val'):
                raise HarnessError('non-deterministic re-execution (expected a recorded value)')
            self.decisions.append(d)
            return d[1]
        if self.model is None:
            r = self._check()
            if r == 'unsat':
                raise PathAbort('infeasible', 'path condition became infeasible')
            if r != 'sat':
                raise SymLeak('no model to concretise a symbolic integer')
            self.model = self.solver.model()
        tt = self._nlabs(t) if self.linear_feasibility else t
        v = self.model.eval(tt, model_completion=True).as_long()
        self.decisions.append(('val', v))
        return v

    # ---- summaries of transcendental functions
    def summary(self, fname: str, args: list, axioms: Optional[Callable] = None):
        args = [z3.simplify(a) for a in args]
        key = (fname, '|'.join(a.sexpr() for a in args))
        hit = self.summaries.get(key)
        if hit is not None:
            return SymFloat(hit[0])
        v = z3.Real(f'{fname}!{len(self.summaries)}')
        # functional consistency with earlier summaries of the same function (Ackermann)
        for (f2, _), (v2, a2) in self.summaries.items():
            if f2 == fname and len(a2) == len(args):
                same = z3.And(*[x == y for x, y in zip(args, a2)])
                self.add_axiom(z3.Implies(same, v == v2))
        self.summaries[key] = (v, args)
        from . import summaries as _s
        for ax in _s.axioms_for(self, fname, v, args):
            self.add_axiom(ax)
        # summary/concrete coherence: when the path condition pins every argument to one number, the summary is enclosed
        # around the libm value (so that it agrees with the same function evaluated natively on the other side of a comparison)
        if self.pin_check and fname in _s.LIBM:
            vals = [self._pinned_value(a) for a in args]
            if all(x is not None for x in vals):
                try:
                    c = _s.LIBM[fname](*[float(x) for x in vals])
                    if c == c and c not in (math.inf, -math.inf):
                        eps = Fraction(1, 2 ** 40)
                        lo, hi = Fraction(c) * (1 - eps), Fraction(c) * (1 + eps)
                        if lo > hi:
                            lo, hi = hi, lo
                        tiny = Fraction(1, 10 ** 300)
                        self.add_axiom(z3.And(v >= realval(lo - tiny), v <= realval(hi + tiny)))
                        self.note_assumption('libm accurate to 2^-40 relative at arguments pinned by the path condition')
                except (ValueError, OverflowError):
                    pass
        return SymFloat(v)

    def _pinned_value(self, t):
        if term_is_num(t):
            return num_of(t) if not z3.is_algebraic_value(t) else None
        if self.model is None:
            if self._check() != 'sat':
                return None
            self.model = self.solver.model()
        try:
            v = self.model.eval(t, model_completion=True)
        except z3.Z3Exception:
            return None
        if not (z3.is_rational_value(v) or z3.is_int_value(v)):
            return None
        if self._check(t != v) != 'unsat':
            return None
        return num_of(v)

    def on_hash(self, x):
        if self.hash_hook is not None:
            return self.hash_hook(x)
        # containers keyed by symbolic values: every symbolic value lands in ONE bucket, so that the container falls back on
        # == (decided by the solver, forking).  A symbolic key is never matched against a concrete key with another hash.
        self.note_assumption('symbolic values used as dict/set/cache keys are matched against other symbolic keys only')
        return SYM_HASH

    def on_round(self, x, n):
        if self.round_hook is not None:
            return self.round_hook(x, n)
        # round half to even is not modelled exactly: r is a multiple of 10^-n within half a unit of x (ties: either neighbour)
        nd = 0 if n is None else int(n)
        if abs(nd) > 12:
            return SymFloat(self.fresh_real('round'))
        xt = z3.simplify(x.t)
        key = ('round%d' % nd, xt.sexpr())
        hit = self.summaries.get(key)
        if hit is not None:
            return SymFloat(hit[0])         # the same argument rounds to the same value (one integer per distinct argument on a path)
        k = self.fresh_int('roundk')
        scale = realval(Fraction(10) ** nd)
        r = z3.ToReal(k) / scale
        self.add_axiom(z3.And(r - xt <= realval(Fraction(1, 2)) / scale, xt - r <= realval(Fraction(1, 2)) / scale))
        self.summaries[key] = (r, [])
        return SymFloat(r)

    # ---- exploration
    def explore(self, run_path: Callable[[], None], on_path_end: Callable[[str, Optional[BaseException]], None]):
        """run_path is executed once per path; it must be deterministic given the decisions"""
        global _ENGINE
        self.worklist = [[]]
        prev = _ENGINE
        _ENGINE = self
        try:
            while self.worklist:
                if self.stats.paths >= self.max_paths:
                    raise HarnessError(f'path bound {self.max_paths} exceeded')
                prefix = self.worklist.pop()
                self._start_path(prefix)
                self.stats.paths += 1
                try:
                    run_path()
                    on_path_end('ok', None)
                except PathAbort as e:
                    self.stats.cut += 1
                    on_path_end('cut:' + e.kind, e)
        finally:
            _ENGINE = prev


# --------------------------------------------------------------------------------------------
# denominators: bring a term to num/den so that identities of rational functions become
# polynomial (z3's nlsat decides those where it says `unknown` with divisions left in)


def to_fraction(t, memo=None) -> Tuple[z3.ArithRef, z3.ArithRef]:
    if memo is None:
        memo = {}
    k = t.get_id()
    if k in memo:
        return memo[k]
    one = realval(1)
    r = None
    if term_is_num(t) or not z3.is_app(t) or t.num_args() == 0:
        r = (t, one)
    else:
        kind = t.decl().kind()
        ch = [to_fraction(c, memo) for c in t.children()] if kind in (
            z3.Z3_OP_ADD, z3.Z3_OP_SUB, z3.Z3_OP_MUL, z3.Z3_OP_DIV, z3.Z3_OP_UMINUS) else None
        if kind == z3.Z3_OP_ADD or kind == z3.Z3_OP_SUB:
            n, d = ch[0]
            for (n2, d2) in ch[1:]:
                if d.eq(d2):
                    n = n + n2 if kind == z3.Z3_OP_ADD else n - n2
                else:
                    n = (n * d2 + n2 * d) if kind == z3.Z3_OP_ADD else (n * d2 - n2 * d)
                    d = d * d2
            r = (n, d)
        elif kind == z3.Z3_OP_MUL:
            n, d = ch[0]
            for (n2, d2) in ch[1:]:
                n = n * n2
                d = d * d2 if not d2.eq(one) else d
            r = (n, d)
        elif kind == z3.Z3_OP_DIV:
            (n1, d1), (n2, d2) = ch
            r = (n1 * d2, d1 * n2)
        elif kind == z3.Z3_OP_UMINUS:
            n, d = ch[0]
            r = (-n, d)
        elif kind == z3.Z3_OP_POWER and term_is_num(t.arg(1)) and num_of(t.arg(1)).denominator == 1 \
                and abs(num_of(t.arg(1))) <= 8:
            e = int(num_of(t.arg(1)))
            n, d = to_fraction(t.arg(0), memo)
            pn, pd = one, one
            for _ in range(abs(e)):
                pn, pd = pn * n, pd * d
            r = (pn, pd) if e >= 0 else (pd, pn)
        else:
            r = (t, one)  # If-terms, ToReal, uninterpreted: atoms
    r = (z3.simplify(r[0]), z3.simplify(r[1]))
    memo[k] = r
    return r


def has_symbolic_division(t, memo=None) -> bool:
    if memo is None:
        memo = set()
    k = t.get_id()
    if k in memo:
        return False
    memo.add(k)
    if z3.is_app(t):
        if t.decl().kind() == z3.Z3_OP_DIV and not term_is_num(t.arg(1)):
            return True
        if t.decl().kind() == z3.Z3_OP_POWER and term_is_num(t.arg(1)) and num_of(t.arg(1)) < 0:
            return True
        return any(has_symbolic_division(c, memo) for c in t.children())
    return False
