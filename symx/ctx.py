"""Ctx: the harness-facing API, in two interpretations.

SymCtx      inputs are z3 constants; `check` is an obligation decided by the solver for every value on
            the current path (escalating contexts, see DESIGN.md 2.1); sat => candidate inputs.
ConcreteCtx inputs are the candidate's numbers; the same harness code runs natively and `check`
            evaluates the property on real doubles (this is the replay).
"""
from __future__ import annotations

import math
import time
from fractions import Fraction
from typing import Any, Callable, Dict, List, Optional

import z3

from . import core
from .core import (SymFloat, SymBool, SymInt, PathAbort, HarnessError, engine, lift, boolterm, mkbool,
                   realval, is_linear, to_fraction, has_symbolic_division, term_is_num, num_of)

TWO53 = Fraction(1, 2 ** 53)


def _abs_t(t):
    return z3.If(t >= 0, t, -t)


def model_value(m, v):
    """python value (Fraction / int / bool / str) of constant v in model m"""
    x = m.eval(v, model_completion=True)
    if z3.is_int_value(x):
        return x.as_long()
    if z3.is_rational_value(x):
        return Fraction(x.numerator_as_long(), x.denominator_as_long())
    if z3.is_algebraic_value(x):
        a = x.approx(30)
        return Fraction(a.numerator_as_long(), a.denominator_as_long())
    if z3.is_true(x):
        return True
    if z3.is_false(x):
        return False
    if z3.is_string_value(x):
        from .strings import decode_z3_string
        return decode_z3_string(x.as_string())
    return str(x)


class CheckRecord:
    __slots__ = ('name', 'n', 'discharged', 'by', 'undecided', 'candidates', 'known_hits', 'sample', 'skipped_after_candidate')

    def __init__(self, name):
        self.name = name
        self.n = 0
        self.discharged = 0
        self.by = {}
        self.undecided = 0
        self.candidates = 0
        self.known_hits = 0
        self.sample = None
        self.skipped_after_candidate = 0


class SymCtx:
    symbolic = True

    def __init__(self, eng: core.Engine, unit_info: dict, known: list, oblig_rlimit: int, oblig_timeout_ms: int):
        self.eng = eng
        self.unit_info = unit_info          # {'harness':..., 'config':...}
        self.known = known                  # known-finding entries applicable to this harness
        self.oblig_rlimit = oblig_rlimit
        self.oblig_timeout_ms = oblig_timeout_ms
        self.inputs: Dict[str, Any] = {}    # name -> z3 const (per path)
        self.input_kinds: Dict[str, str] = {}
        self.input_ranges: Dict[str, Any] = {}
        self.probe_hits = 0
        self.checks: Dict[str, CheckRecord] = {}
        self.reached: Dict[str, int] = {}
        self.candidates: List[dict] = []
        self.known_hits: List[dict] = []
        self.undecided: List[dict] = []
        self.samples: List[dict] = []
        self.oblig_queries = 0
        self.oblig_solver_s = 0.0
        self.nontrivial_paths = 0
        self._path_nontrivial = False
        self.max_candidates = 40
        # thorough tier: a sample of the obligations z3 discharged is re-decided by cvc5 (binary) from an SMT-LIB 2 export
        self.cross_check = False
        self.cross = {'exported': 0, 'agree': 0, 'inconclusive': 0, 'disagree': 0}
        self._cross_seen: Dict[str, int] = {}

    # ---- per path
    def begin_path(self):
        self.inputs = {}
        self.input_kinds = {}
        self.input_ranges = {}
        self._path_nontrivial = False

    def end_path(self):
        # a path counts when the solver did work on it: it decided at least one branch on a symbolic value (path feasibility), or at least one
        # obligation on it was not closed by term simplification alone
        try:
            decided = len(self.eng.decisions) > 0
        except Exception:
            decided = False
        if self._path_nontrivial or decided:
            self.nontrivial_paths += 1

    # ---- inputs
    def real(self, name: str, lo=None, hi=None) -> SymFloat:
        v = z3.Real(name)
        self.inputs[name] = v
        self.input_kinds[name] = 'real'
        self.input_ranges[name] = (lo, hi)
        x = SymFloat(v)
        if lo is not None:
            self.eng.add_axiom(v >= lift(lo))
        if hi is not None:
            self.eng.add_axiom(v <= lift(hi))
        return x

    def integer(self, name: str, lo: int, hi: int) -> SymInt:
        v = z3.Int(name)
        self.inputs[name] = v
        self.input_kinds[name] = 'int'
        self.eng.add_axiom(z3.And(v >= lo, v <= hi))
        return SymInt(v)

    def boolean(self, name: str) -> SymBool:
        v = z3.Bool(name)
        self.inputs[name] = v
        self.input_kinds[name] = 'bool'
        return SymBool(v)

    def string(self, name: str, regex=None, max_len: int = 12):
        """a symbolic string of length <= max_len, optionally constrained to a regular language (z3 regex built by the harness)"""
        from .strings import SymStr
        v = z3.String(name)
        self.inputs[name] = v
        self.input_kinds[name] = 'str'
        self.eng.add_axiom(z3.Length(v) <= max_len)
        if regex is not None:
            self.eng.add_axiom(z3.InRe(v, regex))
        return SymStr(v, max_len)

    def structured_string(self, name: str, spec):
        """a symbolic string built from parts; spec items: ('ws', k) whitespace{0,k} | ('spaces', k) | ('ci', name) one part per character, any letter case |
        ('lc', n) n lower-case letters/digits/punctuation (no blanks, no upper case) | ('num', n) the code's number pattern, <= n chars"""
        from . import strings as S
        parts = []
        total = 0
        for j, item in enumerate(spec):
            kind = item[0]
            if kind in ('ws', 'spaces'):
                v = z3.String(f'{name}.{j}')
                rex = z3.Loop(S.ws_re() if kind == 'ws' else z3.Re(z3.StringVal(' ')), 0, item[1])
                self.eng.add_axiom(z3.InRe(v, rex))
                parts.append((S.SymStr(v, item[1]), kind))
                total += item[1]
            elif kind == 'ci':
                for i, ch in enumerate(item[1]):
                    v = z3.String(f'{name}.{j}.{i}')
                    self.eng.add_axiom(z3.InRe(v, S.char_ci(ch)))
                    q = S.SymStr(v, 1)
                    q.base = ch.lower() if (ch.isascii() and ch.isalpha()) else ch
                    parts.append((q, 'ci'))
                    total += 1
            elif kind == 'lc':
                alphabet = z3.Union(z3.Range('a', 'z'), z3.Range('0', '9'), z3.Range('!', '/'), z3.Range(':', '@'), z3.Range('[', '`'), z3.Range('{', '~'))
                v = z3.String(f'{name}.{j}')
                self.eng.add_axiom(z3.InRe(v, z3.Loop(alphabet, 1, item[1])))
                parts.append((S.SymStr(v, item[1]), 'lc'))
                total += item[1]
            elif kind == 'num':
                v = z3.String(f'{name}.{j}')
                self.eng.add_axiom(z3.InRe(v, S.number_re()))
                self.eng.add_axiom(z3.Length(v) <= item[1])
                parts.append((S.SymStr(v, item[1]), 'nospace'))
                total += item[1]
            else:
                raise ValueError(kind)
        whole = z3.String(name)
        self.inputs[name] = whole
        self.input_kinds[name] = 'str'
        self.eng.add_axiom(whole == z3.Concat(*[q.t for (q, _) in parts]) if len(parts) > 1 else whole == parts[0][0].t)
        return S.SymStr(whole, total, parts)

    def choice(self, name: str, n: int) -> int:
        """fork over 0..n-1 (a symbolic index concretised by the engine)"""
        if n == 1:
            return 0
        return self.integer(name, 0, n - 1).concretize(0, n - 1)

    # ---- control
    def assume(self, cond):
        self.eng.assume(cond)

    def cut(self, reason: str):
        raise PathAbort('declared', reason)

    def reach(self, tag: str):
        self.reached[tag] = self.reached.get(tag, 0) + 1

    def note(self, s: str):
        self.eng.note_assumption(s)

    # ---- term helpers usable in both modes
    def ite(self, c, a, b):
        if isinstance(c, bool):
            return a if c else b
        ct = boolterm(c)
        la, lb = lift(a), lift(b)
        return SymFloat(z3.If(ct, la, lb))

    def abs(self, a):
        if isinstance(a, SymFloat):
            return abs(a)
        return math.fabs(a)

    def max(self, a, b):
        return self.ite(a >= b, a, b)

    def min(self, a, b):
        return self.ite(a <= b, a, b)

    def all(self, conds):
        r = True
        for c in conds:
            if c is True:
                continue
            if c is False:
                return False
            r = c if r is True else (r & c)
        return r

    def any(self, conds):
        r = False
        for c in conds:
            if c is False:
                continue
            if c is True:
                return True
            r = c if r is False else (r | c)
        return r

    def implies(self, a, b):
        if a is False or b is True:
            return True
        if a is True:
            return b
        if b is False:
            return ~a if not isinstance(a, bool) else (not a)
        return (~a) | b

    def same_term(self, a, b) -> bool:
        """syntactic identity after simplification (same operations on the same inputs)"""
        for v in (a, b):
            if isinstance(v, float) and not isinstance(v, SymFloat) and (v != v or v in (math.inf, -math.inf)):
                return (a is b) or (isinstance(a, float) and isinstance(b, float) and not isinstance(a, SymFloat) and not isinstance(b, SymFloat)
                                   and ((a != a and b != b) or a == b))
        la, lb = lift(a), lift(b)
        if la is None or lb is None:
            return a is b or a == b
        return z3.simplify(la).eq(z3.simplify(lb)) or z3.is_true(z3.simplify(la == lb))

    def is_symbolic(self, x) -> bool:
        return core.is_sym(x)

    def fresh(self, base: str) -> SymFloat:
        """an internal unknown (not an input): e.g. garbage state"""
        return SymFloat(self.eng.fresh_real(base))

    # ---- obligations
    def check(self, name: str, cond, info: Optional[dict] = None):
        rec = self.checks.get(name)
        if rec is None:
            rec = self.checks[name] = CheckRecord(name)
        rec.n += 1
        self.reached['check:' + name] = self.reached.get('check:' + name, 0) + 1
        if isinstance(cond, bool):
            if cond:
                rec.discharged += 1
                rec.by['const'] = rec.by.get('const', 0) + 1
                return
            t = z3.BoolVal(False)
        else:
            t = boolterm(cond)
        self._discharge(rec, t, info)

    def check_eq(self, name: str, a, b, rel: float = 0.0, abs: float = 0.0, info: Optional[dict] = None, tight: bool = False):
        """a == b (rel = abs = 0) or |a - b| <= rel*max(|a|,|b|) + abs"""
        la, lb = lift(a), lift(b)
        if la is None or lb is None:
            return self.check(name, a == b, info)
        exact = (la == lb)
        if rel == 0 and abs == 0:
            tol = None
        else:
            tol = _abs_t(la - lb) <= realval(Fraction(rel)) * z3.If(_abs_t(la) >= _abs_t(lb), _abs_t(la), _abs_t(lb)) + realval(Fraction(abs))
        rec = self.checks.get(name)
        if rec is None:
            rec = self.checks[name] = CheckRecord(name)
        rec.n += 1
        self.reached['check:' + name] = self.reached.get('check:' + name, 0) + 1
        # fast path: polynomial identity by normalisation to a sum of monomials
        try:
            diff = z3.simplify(la - lb)
            if len(diff.sexpr()) < 40000:
                diff = z3.simplify(diff, som=True)
            if term_is_num(diff) and num_of(diff) == 0:
                rec.discharged += 1
                rec.by['normal-form'] = rec.by.get('normal-form', 0) + 1
                return
        except z3.Z3Exception:
            pass
        self._discharge(rec, exact, info, fallback=tol, eq_terms=(la, lb))

    def lemma(self, name: str, hyps, goal, info: Optional[dict] = None, timeout_mult: int = 10):
        """a stand-alone solver query: goal under EXACTLY the given hypotheses (not the path context).  Used for small real-arithmetic
        lemmas about terms extracted from the code.  sat/unknown => the obligation is undecided (a lemma has no native replay)."""
        rec = self.checks.get(name)
        if rec is None:
            rec = self.checks[name] = CheckRecord(name)
        rec.n += 1
        self.reached['check:' + name] = self.reached.get('check:' + name, 0) + 1
        self._path_nontrivial = True
        hy = [boolterm(h) for h in hyps if h is not True]
        r, m = self._solve(hy, z3.Not(boolterm(goal)), rl_mult=timeout_mult)
        if r == 'unsat':
            rec.discharged += 1
            rec.by['lemma'] = rec.by.get('lemma', 0) + 1
            if rec.sample is None:
                rec.sample = {'check': name, 'goal': _short(boolterm(goal)), 'context': 'lemma hypotheses only', 'hyps': len(hy), 'result': 'unsat'}
            return True
        rec.undecided += 1
        if len(self.undecided) < 20:
            self.undecided.append({'check': name, 'lemma': True, 'result': r, 'goal': _short(boolterm(goal)), 'info': info,
                                   'model': ({str(d): str(m[d]) for d in m.decls()} if m is not None else None)})
        return False

    # the discharge ladder
    def _solve(self, hyps, goal_neg, rl_mult=1, tag=None):
        s = z3.Solver()
        s.set('timeout', self.oblig_timeout_ms * rl_mult)
        if self.oblig_rlimit:
            s.set('rlimit', self.oblig_rlimit * rl_mult)
        for h in hyps:
            s.add(h)
        s.add(goal_neg)
        t0 = time.perf_counter()
        core.CALL_STARTED[0] = time.time()
        try:
            r = str(s.check())
        finally:
            core.CALL_STARTED[0] = None
        self.oblig_solver_s += time.perf_counter() - t0
        self.oblig_queries += 1
        if r == 'unsat' and self.cross_check and tag is not None and self._cross_seen.get(tag, 0) < 2:
            self._cross_seen[tag] = self._cross_seen.get(tag, 0) + 1
            self._cvc5_recheck(s)
        return r, (s.model() if r == 'sat' else None)

    def _cvc5_recheck(self, solver):
        import os
        import subprocess
        import tempfile
        try:
            text = '(set-logic ALL)\n' + solver.to_smt2()
            with tempfile.NamedTemporaryFile('w', suffix='.smt2', delete=False) as f:
                f.write(text)
                path = f.name
            self.cross['exported'] += 1
            try:
                out = subprocess.run(['cvc5', '--tlimit=20000', path], capture_output=True, text=True, timeout=40).stdout.strip().splitlines()
            except subprocess.TimeoutExpired:
                out = ['timeout']
            finally:
                os.unlink(path)
            ans = out[0] if out else ''
            if ans == 'unsat':
                self.cross['agree'] += 1
            elif ans == 'sat':
                self.cross['disagree'] += 1
            else:
                self.cross['inconclusive'] += 1
        except Exception:
            self.cross['inconclusive'] += 1

    def _model_ok(self, m, lits) -> bool:
        for l in lits:
            try:
                if not z3.is_true(m.eval(l, model_completion=True)):
                    return False
            except z3.Z3Exception:
                return False
        return True

    def _discharge(self, rec: CheckRecord, goal, info, fallback=None, eq_terms=None):
        eng = self.eng
        g = z3.simplify(goal)
        if z3.is_true(g):
            rec.discharged += 1
            rec.by['simplify'] = rec.by.get('simplify', 0) + 1
            return
        self._path_nontrivial = True
        if rec.candidates > 0 or rec.known_hits > 8:
            # this check already has a candidate violation in this work unit: do not spend solver time on further instances
            rec.skipped_after_candidate += 1
            rec.n -= 1
            return
        if rec.undecided >= 3:
            rec.undecided += 1      # already inconclusive in this work unit: fail fast
            return
        full = list(eng.axioms) + list(eng.pc)
        lin = eng.linear_part()
        attempts = []
        goals = []
        if eq_terms is not None and (has_symbolic_division(g) or has_symbolic_division(eq_terms[0] - eq_terms[1])):
            n, d = to_fraction(eq_terms[0] - eq_terms[1])
            n0 = z3.simplify(n, som=True)
            goals.append(('cleared', z3.simplify(n0 == 0)))
        goals.append(('exact', g))
        if fallback is not None:
            goals.append(('tol', z3.simplify(fallback)))
        final_name = goals[-1][0]
        cand_model = None
        cand_goal = None
        spec = None            # a model of a weaker context that violates dropped literals: only a source of inputs for native replay
        for mult in (1, 8):
            if mult == 8 and rec.undecided >= 3:
                break           # fail fast: this check is already inconclusive in this work unit
            if mult == 8 and spec is not None:
                # before spending the large budget: the native replay is the arbiter for speculative inputs
                if self._replay_forked(self._inputs_of(spec[0])):
                    self._candidates(rec, spec[1], full, spec[0], info)
                    return
                spec = None
            if mult == 8:
                # the solver could not decide within the small budget: probe a few concrete points natively.  A hit is a
                # (replayed) violation; a miss decides nothing - the obligation stays with the solver.
                hit = self._probe_forked(rec.name)
                if hit is not None:
                    rec.candidates += 1
                    self.probe_hits += 1
                    if len(self.candidates) < self.max_candidates:
                        self.candidates.append({'harness': self.unit_info['harness'], 'config': self.unit_info['config'],
                                                'check': rec.name, 'inputs': hit, 'info': info, 'kinds': dict(self.input_kinds),
                                                'source': 'native probe of an obligation the solver left undecided'})
                    return
            for gname, gg in goals:
                if z3.is_true(gg):
                    rec.discharged += 1
                    rec.by['simplify:' + gname] = rec.by.get('simplify:' + gname, 0) + 1
                    return
                if mult > 1 and gname != final_name and not (gname == 'cleared' and fallback is None):
                    continue
                ng = z3.Not(gg)
                for lname, hyps in (('lin', lin), ('full', full)):
                    if mult == 1 and lname == 'full' and len(lin) == len(full):
                        continue
                    if mult > 1 and lname == 'lin':
                        continue
                    r, m = self._solve(hyps, ng, rl_mult=mult, tag=rec.name)
                    attempts.append(f'{gname}/{lname}{"*8" if mult > 1 else ""}:{r}')
                    if r == 'unsat':
                        rec.discharged += 1
                        k = f'{gname}/{lname}'
                        rec.by[k] = rec.by.get(k, 0) + 1
                        if rec.sample is None:
                            rec.sample = {'check': rec.name, 'goal': _short(gg), 'context': lname,
                                          'hyps': len(hyps), 'result': 'unsat'}
                        return
                    if r == 'sat' and lname != 'full' and spec is None and gname != 'cleared' and not self._model_ok(m, full):
                        spec = (m, gg)
                    if r == 'sat' and (lname == 'full' or self._model_ok(m, full)):
                        if gname == 'cleared':
                            # a model of the cleared form may sit on a vanishing denominator: confirm on the original
                            if not z3.is_false(m.eval(g, model_completion=True)):
                                continue
                        if gname == final_name or (fallback is None):
                            cand_model, cand_goal = m, gg
                            break
                        # exact equality fails but a tolerance is allowed: go on to the tolerance goal
                        break
                if cand_model is not None:
                    break
            if cand_model is not None:
                break
        if cand_model is None:
            rec.undecided += 1
            if len(self.undecided) < 20:
                self.undecided.append({'check': rec.name, 'goal': _short(g), 'attempts': attempts,
                                       'decisions': len(eng.decisions), 'info': info})
            return
        self._candidates(rec, cand_goal, full, cand_model, info)

    def _replay_forked(self, inputs) -> bool:
        """native replay of one input assignment in a forked child (isolated from the exploration state); True if a check fails"""
        import os
        import select
        r_fd, w_fd = os.pipe()
        pid = os.fork()
        if pid == 0:
            code = b'0'
            try:
                os.close(r_fd)
                from . import core as _core
                from .runner import REGISTRY
                _core._ENGINE = None
                from . import procstate as _ps
                _ps.restore()
                c = ConcreteCtx(inputs_from_json(_jsonable(inputs)))
                try:
                    REGISTRY[self.unit_info['harness']].fn(c, **self.unit_info['config'])
                except PathAbort:
                    pass
                code = b'1' if c.failures else b'0'
            except BaseException:
                code = b'0'
            finally:
                try:
                    os.write(w_fd, code)
                finally:
                    os._exit(0)
        os.close(w_fd)
        out = b''
        try:
            ready, _, _ = select.select([r_fd], [], [], 120)
            if ready:
                out = os.read(r_fd, 1)
        finally:
            os.close(r_fd)
            try:
                if not out:
                    os.kill(pid, 9)
                os.waitpid(pid, 0)
            except OSError:
                pass
        self.spec_replays = getattr(self, 'spec_replays', 0) + 1
        return out == b'1'

    def _probe_forked(self, check_name, n=32):
        """try n pseudo-random input assignments natively in a forked child; returns the json inputs of the first that fails
        `check_name`, else None"""
        import os
        import json as _json
        import random
        import select
        r_fd, w_fd = os.pipe()
        pid = os.fork()
        if pid == 0:
            out = b''
            try:
                os.close(r_fd)
                from . import core as _core
                from .runner import REGISTRY
                _core._ENGINE = None
                from . import procstate as _ps
                rnd = random.Random(hash((check_name, len(self.eng.decisions), self.eng.stats.paths)) & 0xffffffff)
                fn = REGISTRY[self.unit_info['harness']].fn
                for i in range(n):
                    inputs = {}
                    for k, kind in self.input_kinds.items():
                        if kind == 'real':
                            lo, hi = self.input_ranges.get(k, (None, None))
                            lo = -1e3 if lo is None else float(lo)
                            hi = 1e3 if hi is None else float(hi)
                            mode = rnd.random()
                            if mode < 0.15:
                                v = rnd.choice([lo, hi, 0.0, 1.0, -1.0])
                            elif mode < 0.6 and lo < hi:
                                # small magnitudes around the lower end / zero
                                span = min(hi - lo, 10.0)
                                base = 0.0 if lo <= 0.0 <= hi else lo
                                v = base + rnd.uniform(-span, span) if lo <= base - span else base + rnd.uniform(0, span)
                            else:
                                v = rnd.uniform(lo, hi)
                            inputs[k] = min(max(v, lo), hi)
                        elif kind == 'int':
                            inputs[k] = 0
                        else:
                            inputs[k] = bool(rnd.getrandbits(1))
                    _ps.restore()
                    c = ConcreteCtx(inputs)
                    try:
                        fn(c, **self.unit_info['config'])
                    except PathAbort:
                        continue
                    except Exception:
                        continue
                    if any(f.name == check_name for f in c.failures):
                        out = _json.dumps(inputs).encode()
                        break
            except BaseException:
                out = b''
            finally:
                try:
                    os.write(w_fd, out or b'-')
                finally:
                    os._exit(0)
        os.close(w_fd)
        data = b''
        try:
            while True:
                ready, _, _ = select.select([r_fd], [], [], 180)
                if not ready:
                    break
                chunk = os.read(r_fd, 65536)
                if not chunk:
                    break
                data += chunk
        finally:
            os.close(r_fd)
            try:
                if not data:
                    os.kill(pid, 9)
                os.waitpid(pid, 0)
            except OSError:
                pass
        if not data or data == b'-':
            return None
        try:
            return _json.loads(data.decode())
        except Exception:
            return None

    def probe_any(self, n=48, seed=0):
        """native probing of this work unit when symbolic execution could not proceed (an operation on a symbolic value that the
        proxies do not model): n pseudo-random input assignments from the declared ranges, in a forked child.  Returns
        (inputs, check name) of the first natively failing check, or None.  A hit goes to the fresh-interpreter replay like any
        solver model; a miss decides nothing (the unit stays a harness error)."""
        import os
        import json as _json
        import random
        import select
        r_fd, w_fd = os.pipe()
        pid = os.fork()
        if pid == 0:
            out = b''
            try:
                os.close(r_fd)
                from . import core as _core
                from . import procstate as _ps
                from .runner import REGISTRY
                _core._ENGINE = None
                rnd = random.Random(seed)
                fn = REGISTRY[self.unit_info['harness']].fn
                for i in range(n):
                    _ps.restore()
                    c = ConcreteCtx({}, rnd=rnd)
                    try:
                        fn(c, **self.unit_info['config'])
                    except PathAbort:
                        pass
                    except Exception as ex:
                        c.note_exception(ex)
                    if c.failures:
                        out = _json.dumps({'inputs': c.inputs, 'check': c.failures[0].name}).encode()
                        break
            except BaseException:
                out = b''
            finally:
                try:
                    os.write(w_fd, out or b'-')
                finally:
                    os._exit(0)
        os.close(w_fd)
        data = b''
        try:
            while True:
                ready, _, _ = select.select([r_fd], [], [], 240)
                if not ready:
                    break
                chunk = os.read(r_fd, 65536)
                if not chunk:
                    break
                data += chunk
        finally:
            os.close(r_fd)
            try:
                if not data:
                    os.kill(pid, 9)
                os.waitpid(pid, 0)
            except OSError:
                pass
        if not data or data == b'-':
            return None
        try:
            d = _json.loads(data.decode())
            return d['inputs'], d['check']
        except Exception:
            return None

    def _inputs_of(self, m) -> Dict[str, Any]:
        out = {}
        for k, v in self.inputs.items():
            out[k] = model_value(m, v)
        return out

    def _candidates(self, rec, goal, full, m, info):
        excl = []
        for _round in range(6):
            inputs = self._inputs_of(m)
            hit = None
            for kf in self.known:
                if kf.get('check') not in (None, rec.name):
                    continue
                try:
                    if kf.get('when') is None or bool(eval(kf['when'], {'abs': abs}, _as_floats(inputs))):
                        hit = kf
                        break
                except Exception:
                    continue
            cand = {'harness': self.unit_info['harness'], 'config': self.unit_info['config'],
                    'check': rec.name, 'inputs': _jsonable(inputs), 'info': info,
                    'kinds': dict(self.input_kinds)}
            if hit is None:
                rec.candidates += 1
                if len(self.candidates) < self.max_candidates:
                    self.candidates.append(cand)
                return
            rec.known_hits += 1
            cand['known'] = hit['id']
            if len(self.known_hits) < self.max_candidates:
                self.known_hits.append(cand)
            if hit.get('when') is None:
                return
            # exclude the known input class and look for a different violation of the same check
            env = {k: (SymFloat(v) if self.input_kinds[k] == 'real' else SymInt(v) if self.input_kinds[k] == 'int' else SymBool(v) if self.input_kinds[k] == 'bool' else v)
                   for k, v in self.inputs.items()}
            env['abs'] = abs
            try:
                wt = boolterm(eval(hit['when'], env))
            except Exception as e:  # pragma: no cover
                raise HarnessError(f'known finding {hit["id"]}: cannot translate when={hit["when"]!r}: {e}')
            excl.append(z3.Not(wt))
            r, m = self._solve(full + excl, z3.Not(goal))
            if r == 'unsat':
                rec.discharged += 1
                rec.by['modulo-known'] = rec.by.get('modulo-known', 0) + 1
                return
            if r != 'sat':
                rec.undecided += 1
                if len(self.undecided) < 20:
                    self.undecided.append({'check': rec.name, 'goal': _short(goal), 'attempts': ['modulo-known:' + r]})
                return
        rec.undecided += 1


def _short(t, n=400):
    s = str(t).replace('\n', ' ')
    s = ' '.join(s.split())
    return s if len(s) <= n else s[:n] + '...'


def _jsonable(inputs):
    out = {}
    for k, v in inputs.items():
        if isinstance(v, Fraction):
            out[k] = {'num': str(v.numerator), 'den': str(v.denominator), 'float': float(v)}
        else:
            out[k] = v
    return out


def _as_floats(inputs):
    return {k: (float(v) if isinstance(v, Fraction) else v) for k, v in inputs.items()}


def inputs_from_json(d):
    out = {}
    for k, v in d.items():
        if isinstance(v, dict) and 'num' in v:
            out[k] = float(Fraction(int(v['num']), int(v['den'])))
        else:
            out[k] = v
    return out


class ReplayFailure:
    def __init__(self, name, detail):
        self.name = name
        self.detail = detail

    def __repr__(self):
        return f'{self.name}: {self.detail}'


class ConcreteCtx:
    """native interpretation: inputs are numbers, checks are evaluated on real doubles"""
    symbolic = False

    def __init__(self, inputs: Dict[str, Any], rnd=None):
        self.inputs = inputs
        self.rnd = rnd                      # random mode (native probing): inputs not given are drawn from their declared ranges
        self.failures: List[ReplayFailure] = []
        self.passed = 0
        self.reached: Dict[str, int] = {}
        self.defaulted: List[str] = []

    def _draw(self, lo, hi):
        rnd = self.rnd
        lo = -1e3 if lo is None else float(lo)
        hi = 1e3 if hi is None else float(hi)
        mode = rnd.random()
        if mode < 0.15:
            v = rnd.choice([lo, hi, 0.0, 1.0, -1.0])
        elif mode < 0.55 and lo < hi:
            span = min(hi - lo, 10.0)
            base = 0.0 if lo <= 0.0 <= hi else lo
            v = base + rnd.uniform(-span, span) if lo <= base - span else base + rnd.uniform(0, span)
        else:
            v = rnd.uniform(lo, hi)
        return min(max(v, lo), hi)

    def real(self, name, lo=None, hi=None):
        if name in self.inputs:
            v = float(self.inputs[name])
        elif self.rnd is not None:
            v = self.inputs[name] = self._draw(lo, hi)
        else:
            self.defaulted.append(name)
            v = 1.0 if lo is None else float(lo)
        if (lo is not None and v < lo) or (hi is not None and v > hi):
            raise PathAbort('assume', f'input {name}={v} outside [{lo},{hi}]')
        return v

    def integer(self, name, lo, hi):
        if name not in self.inputs and self.rnd is not None:
            self.inputs[name] = self.rnd.randint(lo, hi)
        v = int(self.inputs.get(name, lo))
        if v < lo or v > hi:
            raise PathAbort('assume', f'input {name}={v} outside [{lo},{hi}]')
        return v

    def boolean(self, name):
        if name not in self.inputs and self.rnd is not None:
            self.inputs[name] = bool(self.rnd.getrandbits(1))
        return bool(self.inputs.get(name, False))

    def choice(self, name, n):
        if n > 1 and name not in self.inputs and self.rnd is not None:
            self.inputs[name] = self.rnd.randrange(n)
        return int(self.inputs.get(name, 0)) if n > 1 else 0

    def string(self, name, regex=None, max_len=12):
        return str(self.inputs.get(name, ''))

    def structured_string(self, name, spec):
        return str(self.inputs.get(name, ''))

    def assume(self, cond):
        if not cond:
            raise PathAbort('assume', 'assumption false on concrete inputs')

    def cut(self, reason):
        raise PathAbort('declared', reason)

    def reach(self, tag):
        self.reached[tag] = self.reached.get(tag, 0) + 1

    def note(self, s):
        pass

    def ite(self, c, a, b):
        return a if c else b

    def abs(self, a):
        return math.fabs(a)

    def max(self, a, b):
        return a if a >= b else b

    def min(self, a, b):
        return a if a <= b else b

    def all(self, conds):
        return all(bool(c) for c in conds)

    def any(self, conds):
        return any(bool(c) for c in conds)

    def implies(self, a, b):
        return (not a) or bool(b)

    def same_term(self, a, b):
        if isinstance(a, float) and isinstance(b, float):
            return a == b or (a != a and b != b) or math.isclose(a, b, rel_tol=4e-16, abs_tol=0.0)
        return a is b or a == b

    def is_symbolic(self, x):
        return False

    def fresh(self, base):
        return 12345.678

    def lemma(self, name, hyps, goal, info=None, timeout_mult=10):
        return True

    def check(self, name, cond, info=None):
        if bool(cond):
            self.passed += 1
        else:
            self.failures.append(ReplayFailure(name, info))

    def note_exception(self, exc) -> bool:
        """an exception that escaped the harness on a NATIVE run.  When it was raised by the package's own code (innermost frame in
        the package) and is one of the package's exception classes or a value-level error (ValueError / ArithmeticError /
        IndexError), the operation the harness performed on valid inputs failed where it must give a result: recorded as the
        failing check 'operation_raised'.  AttributeError / TypeError / NameError (what a harness fake or a renamed private
        name produces) and anything raised in harness code stay harness errors."""
        import traceback as _tb
        tb = _tb.extract_tb(exc.__traceback__)
        if not tb:
            return False
        import os as _os
        pkg = _os.path.join(_os.path.realpath(_os.environ.get('PYBC_REPO', '/repo')), 'py_ballisticcalc') + _os.sep
        inner = _os.path.realpath(tb[-1].filename)
        mod = type(exc).__module__ or ''
        own = mod.startswith('py_ballisticcalc')
        if not inner.startswith(pkg):
            return False
        if not (own or isinstance(exc, (ValueError, ArithmeticError, IndexError))):
            return False
        self.failures.append(ReplayFailure('operation_raised', {'exception': type(exc).__name__, 'message': str(exc)[:200],
                                                                'at': f'{tb[-1].filename}:{tb[-1].lineno}'}))
        return True

    def check_eq(self, name, a, b, rel=0.0, abs=0.0, info=None, tight=False):
        if isinstance(a, (int, float)) and isinstance(b, (int, float)):
            a, b = float(a), float(b)
            if a != a or b != b:
                ok = (a != a) and (b != b)
            else:
                # native doubles: allow rounding below the symbolic tolerance (half of it), and a few
                # ulps where the symbolic claim is exact equality over the reals
                r = rel / 2 if rel else 0.0
                ab = abs / 2 if abs else 0.0
                if tight:   # ulp-level claims proved under the rounding model hold natively as stated
                    r, ab = rel, abs
                if rel == 0 and abs == 0:
                    r, ab = 1e-12, 1e-300
                ok = math.fabs(a - b) <= r * max(math.fabs(a), math.fabs(b)) + ab
            if ok:
                self.passed += 1
            else:
                self.failures.append(ReplayFailure(name, {'a': a, 'b': b, 'info': info}))
        else:
            self.check(name, a == b, info)
