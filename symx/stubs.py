"""Environment stubs installed by module-global rebinding (no change to /repo's sources).

Every stub behaves exactly like the original on concrete arguments and builds a term on symbolic
ones, so installing them is transparent for concrete (replay) runs.  The final confirmation of a
violation nevertheless runs in a fresh interpreter with NO stub installed (see runner.replay_file).
"""
import builtins
import math as _math
import sys
import types

import z3

from . import core
from .core import SymFloat, SymBool, SymInt, is_sym, lift, engine, mkbool, realval, term_is_num, num_of


def _any_sym(*a):
    return any(isinstance(x, (SymFloat, SymInt)) for x in a)


def _conc(x):
    """a SymFloat whose term is a numeral -> python float"""
    if isinstance(x, SymFloat):
        t = z3.simplify(x.t)
        if term_is_num(t) and not z3.is_algebraic_value(t):
            return float(num_of(t))
    return x


_ELEMENTARY = {'asin', 'acos', 'sinh', 'cosh', 'tanh', 'asinh', 'acosh', 'atanh', 'log10', 'log2', 'log1p', 'expm1', 'exp2', 'cbrt',
               'erf', 'erfc', 'gamma', 'lgamma', 'remainder'}


class SymMath(types.ModuleType):
    """drop-in replacement for the `math` module inside py_ballisticcalc's modules"""

    def __init__(self):
        super().__init__('math')
        for k in dir(_math):
            if not k.startswith('__'):
                setattr(self, k, getattr(_math, k))
        for k in dir(_math):
            if not k.startswith('__') and callable(getattr(_math, k)):
                setattr(self, k, self._generic(k))
        for k in ('sqrt', 'sin', 'cos', 'tan', 'atan', 'atan2', 'pow', 'exp', 'fabs', 'floor', 'radians',
                  'degrees', 'isnan', 'isinf', 'isfinite', 'copysign', 'hypot', 'log', 'ceil', 'trunc', 'fsum', 'prod',
                  'isclose', 'fmod', 'dist'):
            setattr(self, k, getattr(self, '_' + k))

    @staticmethod
    def _summ(name, *args):
        args = [_conc(a) for a in args]
        if not _any_sym(*args):
            return getattr(_math, name)(*args)
        return engine().summary(name, [lift(a) for a in args])

    def _sqrt(self, x):
        x = _conc(x)
        if not _any_sym(x):
            return _math.sqrt(x)
        if not core.syntactically_nonneg(z3.simplify(x.t)) and not core.syntactically_nonneg(x.t):
            if engine().decide(x.t < 0):
                raise ValueError('math domain error')
        return engine().summary('sqrt', [x.t])

    def _sin(self, x):
        x = _conc(x)
        if not _any_sym(x):
            return _math.sin(x)
        s = engine().summary('sin', [x.t])
        engine().summary('cos', [x.t])  # create the partner so that s^2 + c^2 = 1 is available
        return engine().summary('sin', [x.t])

    def _cos(self, x):
        x = _conc(x)
        if not _any_sym(x):
            return _math.cos(x)
        engine().summary('sin', [x.t])
        return engine().summary('cos', [x.t])

    def _tan(self, x):
        x = _conc(x)
        if not _any_sym(x):
            return _math.tan(x)
        engine().summary('sin', [x.t])
        engine().summary('cos', [x.t])
        return engine().summary('tan', [x.t])

    def _atan(self, x):
        return self._summ('atan', x)

    def _atan2(self, y, x):
        return self._summ('atan2', y, x)

    def _exp(self, x):
        return self._summ('exp', x)

    def _log(self, x):
        return self._summ('log', x)

    def _pow(self, x, y):
        x, y = _conc(x), _conc(y)
        if not _any_sym(x, y):
            return _math.pow(x, y)
        if isinstance(y, SymFloat):
            return engine().summary('pow', [lift(x), lift(y)])
        yf = float(y)
        if yf != int(yf):
            eng = engine()
            if eng.linear_feasibility:
                # carriers: the base (an interpolated time) is non-negative by an invariant the linear abstraction cannot see
                eng.note_assumption('base of a non-integer power is non-negative (not forked under linear feasibility)')
                eng.add_axiom(lift(x) >= 0)
            elif eng.decide(lift(x) < 0):
                raise ValueError('math domain error')
        return core.sym_pow(x, y)

    def _fabs(self, x):
        x = _conc(x)
        if not _any_sym(x):
            return _math.fabs(x)
        t = lift(x)
        return SymFloat(z3.If(t >= 0, t, -t))

    def _floor(self, x):
        x = _conc(x)
        if not _any_sym(x):
            return _math.floor(x)
        return SymInt(core._floor_term(lift(x)))

    def _ceil(self, x):
        x = _conc(x)
        if not _any_sym(x):
            return _math.ceil(x)
        return SymInt(-core._floor_term(-lift(x)))

    def _trunc(self, x):
        x = _conc(x)
        if not _any_sym(x):
            return _math.trunc(x)
        t = lift(x)
        return SymInt(z3.If(t >= 0, core._floor_term(t), -core._floor_term(-t)))

    def _fsum(self, it):
        it = list(it)
        if not _any_sym(*it):
            return _math.fsum(it)
        r = 0.0
        for v in it:
            r = r + v
        return r

    def _prod(self, it, start=1):
        it = list(it)
        if not _any_sym(start, *it):
            return _math.prod(it, start=start)
        r = start
        for v in it:
            r = r * v
        return r

    def _isclose(self, a, b, rel_tol=1e-09, abs_tol=0.0):
        if not _any_sym(a, b, rel_tol, abs_tol):
            return _math.isclose(a, b, rel_tol=rel_tol, abs_tol=abs_tol)
        d = self._fabs(a - b)
        m = self._fabs(a)
        n = self._fabs(b)
        big = SymFloat(z3.If(lift(m) >= lift(n), lift(m), lift(n)))
        lim = rel_tol * big
        lim = SymFloat(z3.If(lift(lim) >= lift(abs_tol), lift(lim), lift(abs_tol)))
        return d <= lim

    def _fmod(self, x, y):
        if not _any_sym(x, y):
            return _math.fmod(x, y)
        # C fmod: x - y*trunc(x/y)
        q = x / y
        return x - y * float(self._trunc(q))

    def _dist(self, p, q):
        if not _any_sym(*p, *q):
            return _math.dist(p, q)
        return self._sqrt(sum((a - b) * (a - b) for a, b in zip(p, q)))

    def _generic(self, name):
        real = getattr(_math, name)

        def f(*a, **k):
            a2 = [_conc(x) for x in a]
            if not _any_sym(*a2) and not _any_sym(*k.values()):
                return real(*a2, **k)
            if name in _ELEMENTARY and not k:
                # a function of real arguments without a model: fresh real per syntactic argument tuple (sound: no axioms but
                # functional consistency); anything found with it is a candidate for native replay
                return engine().summary(name, [lift(x) for x in a2])
            raise core.SymLeak(f'math.{name} on a symbolic value is not modelled')
        f.__name__ = name
        return f

    def _radians(self, x):
        if not _any_sym(x):
            return _math.radians(x)
        return x * (_math.pi / 180.0)

    def _degrees(self, x):
        if not _any_sym(x):
            return _math.degrees(x)
        return x * (180.0 / _math.pi)

    def _isnan(self, x):
        if isinstance(x, SymFloat):
            return False
        return _math.isnan(x)

    def _isinf(self, x):
        if isinstance(x, SymFloat):
            return False
        return _math.isinf(x)

    def _isfinite(self, x):
        if isinstance(x, SymFloat):
            return True
        return _math.isfinite(x)

    def _copysign(self, x, y):
        if not _any_sym(x, y):
            return _math.copysign(x, y)
        if not _any_sym(y):
            neg = _math.copysign(1.0, y) < 0
            m = self._fabs(x)
            return -m if neg else m
        m = lift(self._fabs(x))
        return SymFloat(z3.If(lift(y) >= 0, m, -m))      # the sign of a symbolic zero is taken as +

    def _hypot(self, *a):
        if not _any_sym(*a):
            return _math.hypot(*a)
        return self._sqrt(sum(x * x for x in a))


symmath = SymMath()


def sym_float(x=0.0):
    """builtin float() that keeps SymFloat (builtin float(q) strips a SymFloat returned by __float__)"""
    if isinstance(x, SymFloat):
        return x
    if isinstance(x, SymInt):
        return SymFloat(z3.ToReal(x.t))
    if isinstance(x, (int, float, str, bytes)):
        return builtins.float(x)
    f = getattr(type(x), '__float__', None)
    if f is not None:
        r = f(x)
        if isinstance(r, SymFloat):
            return r
        return builtins.float(r)
    return builtins.float(x)


def sym_int(x=0, *a):
    """builtin int() that keeps symbolic values symbolic (truncation towards zero)"""
    if a:
        return builtins.int(x, *a)
    if isinstance(x, SymInt):
        return x
    if isinstance(x, SymFloat):
        x = _conc(x)
        if isinstance(x, SymFloat):
            return symmath.trunc(x)
        return builtins.int(x)
    return builtins.int(x)


def as_type_stub(fn, base=builtins.float, also=()):
    """wrap a float()-like function so that it can also stand for the TYPE in isinstance(x, (float, int))"""
    class _Meta(type):
        def __instancecheck__(cls, inst):
            return isinstance(inst, (base,) + tuple(also))

        def __subclasscheck__(cls, sub):
            return issubclass(sub, base)

        def __call__(cls, *a):
            return fn(*a)

        def __eq__(cls, other):
            return other is cls or other is base

        def __hash__(cls):
            return hash(base)

    _Stub = _Meta(base.__name__, (), {})
    return _Stub


class HashVal(int):
    """result of the stubbed hash(): an unknown injective function of the hashed structure.
    Two HashVals are equal iff their structures are equal (symbolic components compared by the solver).
    As an int (what a C-level caller of __hash__ sees: dict, set, lru_cache) it is one constant, so that containers put every
    symbolic key into one bucket and decide by ==."""

    def __new__(cls, struct):
        o = int.__new__(cls, core.SYM_HASH)
        o.struct = struct
        return o

    @staticmethod
    def _eq(a, b):
        if isinstance(a, tuple) and isinstance(b, tuple):
            if len(a) != len(b):
                return False
            r = True
            for x, y in zip(a, b):
                e = HashVal._eq(x, y)
                if e is False:
                    return False
                if e is not True:
                    r = e if r is True else (r & e)
            return r
        if isinstance(a, tuple) or isinstance(b, tuple):
            return False
        la, lb = lift(a), lift(b)
        if la is not None and lb is not None:
            return mkbool(la == lb)
        return a == b

    def __eq__(self, o):
        if not isinstance(o, HashVal):
            return NotImplemented
        return HashVal._eq(self.struct, o.struct)

    def __ne__(self, o):
        e = self.__eq__(o)
        if e is NotImplemented:
            return e
        if isinstance(e, bool):
            return not e
        return ~e

    def __hash__(self):
        return core.SYM_HASH

    def __repr__(self):
        return f'HashVal({self.struct!r})'


def sym_hash(x):
    def has_sym(v):
        if isinstance(v, tuple):
            return any(has_sym(e) for e in v)
        return isinstance(v, (SymFloat, SymInt))
    if has_sym(x):
        return HashVal(x)
    return builtins.hash(x)


class _Warnings(types.ModuleType):
    def __init__(self):
        super().__init__('warnings')
        self.calls = 0

    def warn(self, *a, **k):
        self.calls += 1

    def simplefilter(self, *a, **k):
        pass

    def filterwarnings(self, *a, **k):
        pass


warnings_stub = _Warnings()

_INSTALLED = False


def install():
    """rebind module globals of py_ballisticcalc; idempotent"""
    global _INSTALLED
    if _INSTALLED:
        return
    import warnings
    with warnings.catch_warnings():
        warnings.simplefilter('ignore')
        import py_ballisticcalc  # noqa
    import py_ballisticcalc.trajectory_calc._trajectory_calc as tc
    import py_ballisticcalc.conditions as cond
    import py_ballisticcalc.munition as mun
    import py_ballisticcalc.drag_model as dm
    import py_ballisticcalc.vector._vector as vec
    import py_ballisticcalc.unit as unit
    import py_ballisticcalc.helpers as helpers
    for m in (tc, cond, mun, dm, vec, helpers):
        if hasattr(m, 'math'):
            m.math = symmath
    tc.warnings = warnings_stub
    cond.warnings = warnings_stub
    unit.atan = symmath.atan
    unit.tan = symmath.tan
    unit.float = as_type_stub(sym_float)
    unit.hash = sym_hash
    cond.float = as_type_stub(sym_float)
    helpers.float = as_type_stub(sym_float)
    # every other module of the package as well, so that a float() introduced by a change keeps symbolic values symbolic
    import py_ballisticcalc.interface as iface
    import py_ballisticcalc.trajectory_data._trajectory_data as td
    import py_ballisticcalc.interface_config as icfg
    for m in (tc, mun, dm, vec, iface, td, icfg):
        m.float = as_type_stub(sym_float)
    # ... and generically, for constructs a change may introduce anywhere in the package: the math module and names imported
    # from it, float(), int(), hash()
    fstub, istub = as_type_stub(sym_float), as_type_stub(sym_int, builtins.int, (SymInt,))
    for name, m in list(sys.modules.items()):
        if not (name == 'py_ballisticcalc' or name.startswith('py_ballisticcalc.')) or m is None:
            continue
        g = vars(m)
        for k, v in list(g.items()):
            if v is _math:
                g[k] = symmath
            elif getattr(v, '__module__', None) == 'math' and callable(v) and getattr(_math, getattr(v, '__name__', ''), None) is v:
                g[k] = getattr(symmath, v.__name__)
        if not isinstance(g.get('float'), type) or g.get('float') is builtins.float:
            g['float'] = fstub
        if 'int' not in g or g['int'] is builtins.int:
            g['int'] = istub
        if 'hash' not in g:
            g['hash'] = sym_hash
    _INSTALLED = True


def installed() -> bool:
    return _INSTALLED
