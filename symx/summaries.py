"""Sound axioms for summarised (uninterpreted) transcendental functions.

Every summary is a fresh real per syntactically distinct argument tuple; Engine.summary adds
functional consistency with earlier summaries of the same function.  The axioms below are true
statements about the real functions, so a property proved with them holds for the real functions;
a `sat` answer mentioning a summary is only a candidate and goes to native replay.
"""
import z3

from .core import realval, term_is_num, num_of

import math as _m

LIBM = {'sqrt': _m.sqrt, 'sin': _m.sin, 'cos': _m.cos, 'tan': _m.tan, 'atan': _m.atan, 'atan2': _m.atan2,
        'pow': _m.pow, 'exp': _m.exp, 'log': _m.log}

PI_LO = realval(3.14159265358979)
PI_HI = realval(3.14159265358980)


def _others(eng, fname, v):
    for (f2, _), (v2, a2) in eng.summaries.items():
        if f2 == fname and not v2.eq(v):
            yield v2, a2


def axioms_for(eng, fname, v, args):
    ax = []
    if fname == 'sqrt':
        x, = args
        ax += [v >= 0, v * v == x]
        for v2, (y,) in _others(eng, 'sqrt', v):
            ax.append(z3.Implies(x < y, v < v2))
            ax.append(z3.Implies(x > y, v > v2))
    elif fname in ('sin', 'cos'):
        x, = args
        ax += [v >= -1, v <= 1]
        if fname == 'sin':
            ax.append(z3.Implies(x == 0, v == 0))
            # sign on (-pi, pi)
            ax.append(z3.Implies(z3.And(x > 0, x < PI_LO), v > 0))
            ax.append(z3.Implies(z3.And(x < 0, x > -PI_LO), v < 0))
            # |sin x| <= |x|
            ax.append(z3.Implies(x >= 0, v <= x))
            ax.append(z3.Implies(x <= 0, v >= x))
        else:
            ax.append(z3.Implies(x == 0, v == 1))
            ax.append(z3.Implies(z3.And(x > -PI_LO / 2, x < PI_LO / 2), v > 0))
        # pythagoras with the partner on the same argument, odd/even symmetry with negated args
        partner = 'cos' if fname == 'sin' else 'sin'
        for v2, (y,) in _others(eng, partner, v):
            ax.append(z3.Implies(x == y, v * v + v2 * v2 == 1))
        for v2, (y,) in _others(eng, fname, v):
            if fname == 'sin':
                ax.append(z3.Implies(x == -y, v == -v2))
            else:
                ax.append(z3.Implies(x == -y, v == v2))
    elif fname == 'atan':
        x, = args
        ax += [v > -PI_HI / 2, v < PI_HI / 2]
        ax.append(z3.Implies(x == 0, v == 0))
        ax.append(z3.Implies(x > 0, z3.And(v > 0, v <= x, v >= x - x * x * x / 3)))
        ax.append(z3.Implies(x < 0, z3.And(v < 0, v >= x, v <= x - x * x * x / 3)))
        for v2, (y,) in _others(eng, 'atan', v):
            ax.append(z3.Implies(x < y, v < v2))
            ax.append(z3.Implies(x > y, v > v2))
            ax.append(z3.Implies(x == -y, v == -v2))
        # atan(tan y) = y on the principal branch
        for v2, (y,) in _others(eng, 'tan', v):
            ax.append(z3.Implies(z3.And(x == v2, y > -PI_LO / 2, y < PI_LO / 2), v == y))
    elif fname == 'tan':
        x, = args
        ax.append(z3.Implies(x == 0, v == 0))
        ax.append(z3.Implies(z3.And(x > 0, x < PI_LO / 2), v >= x))
        ax.append(z3.Implies(z3.And(x < 0, x > -PI_LO / 2), v <= x))
        half = realval(0.5)
        ax.append(z3.Implies(z3.And(x >= 0, x <= half), v <= x + x * x * x / 2))
        ax.append(z3.Implies(z3.And(x <= 0, x >= -half), v >= x + x * x * x / 2))
        for v2, (y,) in _others(eng, 'tan', v):
            ax.append(z3.Implies(x == -y, v == -v2))
            ax.append(z3.Implies(z3.And(x > -PI_LO / 2, x < PI_LO / 2, y > -PI_LO / 2, y < PI_LO / 2, x < y), v < v2))
        # tan = sin / cos when both exist on the same argument
        sins = [(v2, a2) for v2, a2 in _others(eng, 'sin', v)]
        coss = [(v2, a2) for v2, a2 in _others(eng, 'cos', v)]
        for s, (ys,) in sins:
            for c, (yc,) in coss:
                ax.append(z3.Implies(z3.And(x == ys, x == yc), v * c == s))
        # tan(atan y) = y
        for v2, (y,) in _others(eng, 'atan', v):
            ax.append(z3.Implies(x == v2, v == y))
    elif fname == 'atan2':
        y, x = args
        ax += [v >= -PI_HI, v <= PI_HI]
        ax.append(z3.Implies(z3.And(y == 0, x > 0), v == 0))
        ax.append(z3.Implies(y > 0, v > 0))
        ax.append(z3.Implies(y < 0, v < 0))
        ax.append(z3.Implies(x > 0, z3.And(v > -PI_HI / 2, v < PI_HI / 2)))
    elif fname == 'pow':
        x, c = args
        ax.append(z3.Implies(x > 0, v > 0))
        ax.append(z3.Implies(x == 1, v == 1))
        if term_is_num(c) and num_of(c) > 0:
            ax.append(z3.Implies(x == 0, v == 0))
            if num_of(c) > 1:
                ax.append(z3.Implies(x > 1, v > x))
                ax.append(z3.Implies(z3.And(x > 0, x < 1), v < x))
            elif num_of(c) < 1:
                ax.append(z3.Implies(x > 1, v < x))
                ax.append(z3.Implies(z3.And(x > 0, x < 1), v > x))
            ax.append(z3.Implies(x > 1, v > 1))
            ax.append(z3.Implies(z3.And(x >= 0, x < 1), v < 1))
            for v2, (y, c2) in _others(eng, 'pow', v):
                if c2.eq(c):
                    ax.append(z3.Implies(z3.And(x >= 0, y >= 0, x < y), v < v2))
                    ax.append(z3.Implies(z3.And(x >= 0, y >= 0, x > y), v > v2))
    elif fname == 'exp':
        x, = args
        ax.append(v > 0)
        ax.append(z3.Implies(x == 0, v == 1))
        ax.append(v >= 1 + x)
        for v2, (y,) in _others(eng, 'exp', v):
            ax.append(z3.Implies(x < y, v < v2))
            ax.append(z3.Implies(x > y, v > v2))
    return ax
