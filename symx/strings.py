"""SymStr: a str subclass backed by a z3 sequence-theory term (for the unit-name parsing code).

Modelled operations (ASCII case mapping; whitespace = space, tab, newline, CR, VT, FF): strip(), lower(), replace(" ", "") on structured
strings, ==, !=, hashing / dict look-up (by concretisation over the finite set of known keys), concatenation.  A SymStr whose value the
path condition determines is replaced by the concrete str (two queries).
"""
from __future__ import annotations

import builtins
import re as _re
from typing import List, Optional

import z3

from . import core
from .core import engine, mkbool, SymBool

WS = ' \t\n\r\x0b\x0c'


def ws_re():
    return z3.Union(*[z3.Re(z3.StringVal(c)) for c in WS])


def char_ci(c: str):
    """regex of the case variants of one character (ASCII letters only; other characters stand for themselves)"""
    if c.isascii() and c.isalpha():
        return z3.Union(z3.Re(z3.StringVal(c.lower())), z3.Re(z3.StringVal(c.upper())))
    return z3.Re(z3.StringVal(c))


def name_ci(name: str):
    """regex: any letter-case spelling of `name`"""
    parts = [char_ci(c) for c in name]
    if not parts:
        return z3.Re(z3.StringVal(''))
    return parts[0] if len(parts) == 1 else z3.Concat(*parts)


def padded(rex, max_pad=2):
    pad = z3.Loop(ws_re(), 0, max_pad)
    return z3.Concat(pad, rex, pad)


def decode_z3_string(s: str) -> str:
    """z3 prints non-ASCII characters as \\u{hex}"""
    return _re.sub(r'\\u\{([0-9a-fA-F]+)\}', lambda m: chr(int(m.group(1), 16)), s)


KNOWN_KEYS: List[str] = []      # filled by the harness: every string a look-up may compare with


class SymStr(str):
    def __new__(cls, term, bound: int, parts=None):
        o = str.__new__(cls, '\x00<sym>')
        o.t = term
        o.bound = bound
        o.parts = parts          # optional structure: list of (SymStr | str, kind) with kind in {'nospace', 'spaces'}
        o._concrete = None
        o._no_key = False
        o.base = None            # for a one-character case-variant part: the lower-case character
        return o

    # ---- helpers
    def _memo(self, key, make):
        eng = engine()
        k = ('str', key, self.t.sexpr())
        hit = eng.summaries.get(k)
        if hit is not None:
            return hit[0]
        v = make()
        eng.summaries[k] = (v, [])
        return v

    def pinned(self) -> Optional[str]:
        """the concrete value if the path condition determines it"""
        if self._concrete is not None:
            return self._concrete
        eng = engine()
        if eng.model is None:
            if eng._check() != 'sat':
                return None
            eng.model = eng.solver.model()
        try:
            v = eng.model.eval(self.t, model_completion=True)
        except z3.Z3Exception:
            return None
        if not z3.is_string_value(v):
            return None
        if eng._check(self.t != v) != 'unsat':
            return None
        self._concrete = decode_z3_string(v.as_string())
        return self._concrete

    def _wrap(self, term, parts=None):
        r = SymStr(term, self.bound, parts)
        c = r.pinned()
        return c if c is not None else r

    # ---- modelled str methods
    def strip(self, chars=None):
        if chars is not None:
            raise core.SymLeak('strip(chars) on SymStr')
        eng = engine()
        if self.parts is not None and all(k in ('ws', 'ci', 'lc', 'any1', 'lit', 'nospace', 'spaces') for (_, k) in self.parts):
            # structural: whitespace-only parts at both ends fall away when the neighbouring part cannot be whitespace
            ps = list(self.parts)
            solid = ('ci', 'lc', 'lit', 'nospace')
            while ps and ps[0][1] in ('ws', 'spaces') and (len(ps) == 1 or ps[1][1] in solid or ps[1][1] in ('ws', 'spaces')):
                ps.pop(0)
            while ps and ps[-1][1] in ('ws', 'spaces') and (len(ps) == 1 or ps[-2][1] in solid or ps[-2][1] in ('ws', 'spaces')):
                ps.pop()
            if not ps or (ps[0][1] in solid and ps[-1][1] in solid):
                return concat([q for (q, _) in ps], self.bound, ps) if ps else ''

        def make():
            n = eng.fresh_n = eng.fresh_n + 1
            a, m, b = z3.String(f'lpad!{n}'), z3.String(f'core!{n}'), z3.String(f'rpad!{n}')
            wsr = ws_re()
            eng.add_axiom(self.t == z3.Concat(a, m, b))
            eng.add_axiom(z3.InRe(a, z3.Star(wsr)))
            eng.add_axiom(z3.InRe(b, z3.Star(wsr)))
            first = z3.SubString(m, 0, 1)
            last = z3.SubString(m, z3.Length(m) - 1, 1)
            eng.add_axiom(z3.Or(z3.Length(m) == 0, z3.And(z3.Not(z3.InRe(first, wsr)), z3.Not(z3.InRe(last, wsr)))))
            return m
        return self._wrap(self._memo('strip', make))

    def lower(self):
        eng = engine()
        if self.parts is not None and all(k in ('ci', 'lc', 'lit') for (_, k) in self.parts):
            # structural: a case variant of x lowers to x; lower-case-only and literal parts lower to themselves
            out = []
            for (q, k) in self.parts:
                if k == 'ci':
                    out.append(q.base)
                elif k == 'lit':
                    out.append(str(q).lower() if not isinstance(q, SymStr) else q.base)
                else:
                    out.append(q)
            return concat(out, self.bound, [(q, 'lc' if isinstance(q, SymStr) else 'lit') for q in out])

        def make():
            n = eng.fresh_n = eng.fresh_n + 1
            r = z3.String(f'lower!{n}')
            eng.add_axiom(z3.Length(r) == z3.Length(self.t))
            eng.add_axiom(z3.Length(self.t) <= self.bound)
            A, Z = ord('A'), ord('Z')
            for i in range(self.bound):
                ci = z3.StrToCode(z3.SubString(self.t, i, 1))
                ri = z3.StrToCode(z3.SubString(r, i, 1))
                eng.add_axiom(z3.Implies(z3.Length(self.t) > i, ri == z3.If(z3.And(ci >= A, ci <= Z), ci + 32, ci)))
            return r
        return self._wrap(self._memo('lower', make))

    def replace(self, old, new, count=-1):
        if old == ' ' and new == '' and count == -1 and self.parts is not None:
            if any(kind not in ('nospace', 'ci', 'lc', 'lit', 'spaces') for (_, kind) in self.parts):
                raise core.SymLeak('replace(" ", "") on a part that may contain other blanks')
            kept = [(p, kind) for (p, kind) in self.parts if kind != 'spaces']
            return concat([p for (p, _) in kept], self.bound, kept)
        c = self.pinned()
        if c is not None:
            return c.replace(old, new, count)
        raise core.SymLeak('replace on an unstructured SymStr')

    def __eq__(self, o):
        if isinstance(o, SymStr):
            return mkbool(self.t == o.t)
        if isinstance(o, str):
            if self._concrete is not None:
                return self._concrete == o
            if self._no_key and o in KNOWN_KEYS:
                return False
            return mkbool(self.t == z3.StringVal(o))
        return NotImplemented

    def __ne__(self, o):
        e = self.__eq__(o)
        if e is NotImplemented:
            return e
        return (not e) if isinstance(e, bool) else ~e

    def concretize(self, keys=None) -> Optional[str]:
        """fork over the known keys: the key this string equals on this path, or None (then it differs from every key)"""
        if self._concrete is not None:
            return self._concrete
        if self._no_key:
            return None
        c = self.pinned()
        if c is not None:
            return c
        eng = engine()
        for k in (keys if keys is not None else KNOWN_KEYS):
            if eng.decide(self.t == z3.StringVal(k)):
                self._concrete = k
                return k
        if keys is None:
            self._no_key = True
        return None

    def __hash__(self):
        k = self.concretize()
        return builtins.hash(k) if k is not None else 0x5eed5eed

    def __len__(self):
        c = self.pinned()
        if c is not None:
            return len(c)
        raise core.SymLeak('len() of an undetermined SymStr')

    def __bool__(self):
        return engine().decide(z3.Length(self.t) > 0)

    def __add__(self, o):
        if isinstance(o, (SymStr, str)):
            return concat([self, o], self.bound + (o.bound if isinstance(o, SymStr) else len(o)))
        return NotImplemented

    def __radd__(self, o):
        if isinstance(o, str):
            return concat([o, self], self.bound + len(o))
        return NotImplemented

    def __str__(self):
        c = self._concrete
        return c if c is not None else '<symstr>'

    def __repr__(self):
        return f'SymStr({self.t})'

    def __format__(self, spec):
        return str(self)

    def _trap(self, *a, **k):
        c = self.pinned()
        if c is not None:
            raise core.SymLeak('unmodelled str method on SymStr (value is determined; call it on .pinned())')
        raise core.SymLeak('unmodelled str method on SymStr')

    upper = split = startswith = endswith = find = index = encode = casefold = title = capitalize = isdigit = isalpha = _trap
    __contains__ = __getitem__ = __iter__ = __mul__ = __mod__ = _trap


def term_of(x):
    return x.t if isinstance(x, SymStr) else z3.StringVal(x)


def concat(items, bound, parts=None):
    if all(not isinstance(i, SymStr) for i in items):
        return ''.join(items)
    if len(items) == 1:
        return items[0]
    return SymStr(z3.Concat(*[term_of(i) for i in items]), bound, parts)


# ---- stubs for the module globals of py_ballisticcalc.unit ----------------------------------------------------------------------

def sym_hasattr(obj, name):
    if isinstance(name, SymStr):
        k = name.concretize()
        return k is not None and builtins.hasattr(obj, k)
    return builtins.hasattr(obj, name)


def sym_getattr(obj, name, *default):
    if isinstance(name, SymStr):
        k = name.concretize()
        if k is None:
            if default:
                return default[0]
            raise AttributeError('<symbolic name>')
        return builtins.getattr(obj, k, *default)
    return builtins.getattr(obj, name, *default)


NUMBER = None


def number_re():
    """the value pattern of py_ballisticcalc.unit._parse_value:  -?(\\d+\\.\\d*|\\.\\d+|\\d+\\.?)"""
    d = z3.Range('0', '9')
    dot = z3.Re(z3.StringVal('.'))
    body = z3.Union(z3.Concat(z3.Plus(d), dot, z3.Star(d)), z3.Concat(dot, z3.Plus(d)), z3.Concat(z3.Plus(d), z3.Option(dot)))
    return z3.Concat(z3.Option(z3.Re(z3.StringVal('-'))), body)


class _Match:
    def __init__(self, whole, groups):
        self._whole, self._groups = whole, groups

    def group(self, i=0):
        return self._whole if i == 0 else self._groups[i - 1]

    def groups(self):
        return tuple(self._groups)


class SymRe:
    """`re` for the two patterns _parse_value uses, on structured SymStr (number part + unit part); plain `re` otherwise"""
    P_VALUE = r'^-?(?:\d+\.\d*|\.\d+|\d+\.?)$'
    P_VALUE_UNIT = r'(^-?(?:\d+\.\d*|\.\d+|\d+\.?))(.*$)'

    def __getattr__(self, k):
        return getattr(_re, k)

    def match(self, pattern, string, flags=0):
        if not isinstance(string, SymStr):
            return _re.match(pattern, string, flags)
        c = string.pinned()
        if c is not None:
            return _re.match(pattern, c, flags)
        eng = engine()
        if pattern == self.P_VALUE:
            return _Match(string, []) if eng.decide(z3.InRe(string.t, number_re())) else None
        if pattern == self.P_VALUE_UNIT and string.parts is not None and len(string.parts) >= 2 and string.parts[0][1] == 'nospace':
            num = string.parts[0][0]
            rest_parts = string.parts[1:]
            rest = concat([q for (q, _) in rest_parts], string.bound, rest_parts)
            # the split is unique because the unit part starts with neither a digit nor a dot (harness regex), so every
            # alternative of the number pattern ends exactly at the boundary
            if eng.decide(z3.InRe(term_of(num), number_re())):
                return _Match(string, [num, rest])
            return None
        raise core.SymLeak(f're.match({pattern!r}) on an unstructured SymStr')


symre = SymRe()


class SymPattern:
    """stands in for a PRECOMPILED pattern object held in a module global of the package (re.compile at import time): the same
    symbolic matcher on SymStr, the real compiled pattern on everything else"""

    def __init__(self, compiled):
        self._c = compiled

    def __getattr__(self, k):
        return getattr(self._c, k)

    def match(self, string, *a, **k):
        if isinstance(string, SymStr) and not a and not k:
            return symre.match(self._c.pattern, string, 0)
        return self._c.match(string, *a, **k)

    def fullmatch(self, string, *a, **k):
        if isinstance(string, SymStr) and not a and not k:
            pat = self._c.pattern
            return symre.match(pat if pat.endswith('$') else pat + '$', string, 0)
        return self._c.fullmatch(string, *a, **k)


def wrap_compiled_patterns(module):
    for k, v in list(vars(module).items()):
        if isinstance(v, _re.Pattern):
            setattr(module, k, SymPattern(v))


def sym_float_str(x):
    """float() of a numeric SymStr: a fresh real (the numeric value is not the subject of the string harnesses)"""
    if isinstance(x, SymStr):
        c = x.pinned()
        if c is not None:
            return builtins.float(c)
        return core.SymFloat(engine().fresh_real('strnum'))
    from .stubs import sym_float
    return sym_float(x)


def install():
    import py_ballisticcalc.unit as unit
    unit.hasattr = sym_hasattr
    unit.getattr = sym_getattr
    unit.re = symre
    wrap_compiled_patterns(unit)
    from .stubs import as_type_stub
    unit.float = as_type_stub(sym_float_str)
