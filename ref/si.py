"""SI definitions written from the standards, as exact rationals (NOT derived from /repo).

length: metre; mass: kilogram; pressure: pascal; speed: m/s; energy: joule; angle: radian (pi kept symbolic
as the enclosure [PI_LO, PI_HI]); temperature: affine maps to kelvin.
"""
from fractions import Fraction as F

INCH = F(254, 10000)                 # international inch, exact
FOOT = 12 * INCH
YARD = 36 * INCH
MILE = 5280 * FOOT                   # 1609.344 m
NMI = F(1852)                        # international nautical mile, exact
G0 = F(980665, 100000)               # standard gravity, exact
LB = F(45359237, 100000000)          # avoirdupois pound, exact (kg)
GRAIN = LB / 7000
OUNCE = LB / 16
MMHG = F(133322387415, 10**9)        # conventional millimetre of mercury, Pa
ATM = F(101325)

LENGTH_M = {
    'Inch': INCH, 'Foot': FOOT, 'Yard': YARD, 'Mile': MILE, 'NauticalMile': NMI,
    'Millimeter': F(1, 1000), 'Centimeter': F(1, 100), 'Meter': F(1), 'Kilometer': F(1000),
    'Line': INCH / 10,
}
MASS_KG = {
    'Grain': GRAIN, 'Ounce': OUNCE, 'Gram': F(1, 1000), 'Pound': LB, 'Kilogram': F(1),
    'Newton': 1 / G0,                # weight of 1 N under standard gravity, in kg
}
PRESSURE_PA = {
    'MmHg': MMHG, 'InHg': MMHG * F(254, 10), 'Bar': F(100000), 'hPa': F(100), 'PSI': LB * G0 / (INCH * INCH),
}
SPEED_MPS = {
    'MPS': F(1), 'KMH': F(1000, 3600), 'FPS': FOOT, 'MPH': MILE / 3600, 'KT': NMI / 3600,
}
ENERGY_J = {
    'FootPound': FOOT * LB * G0, 'Joule': F(1),
}
# angle units as multiples of pi radians (linear ones)
ANGLE_PI = {
    'Degree': F(1, 180), 'MOA': F(1, 180 * 60), 'Mil': F(2, 6400), 'Thousandth': F(2, 6000), 'OClock': F(1, 6),
}
ANGLE_RAD = {'Radian': F(1), 'MRad': F(1, 1000)}
# tangent-based units: angle = atan(value / TAN_DIV)
ANGLE_TAN_DIV = {'InchesPer100Yd': F(3600), 'CmPer100m': F(10000)}
# temperature: kelvin = (value + OFFSET) * SCALE
TEMP_K = {
    'Kelvin': (F(0), F(1)), 'Celsius': (F(27315, 100), F(1)),
    'Fahrenheit': (F(45967, 100), F(5, 9)), 'Rankin': (F(0), F(5, 9)),
}

DIMENSIONS = {
    'Distance': LENGTH_M, 'Weight': MASS_KG, 'Pressure': PRESSURE_PA, 'Velocity': SPEED_MPS, 'Energy': ENERGY_J,
}
