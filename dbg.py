#!/usr/bin/env python
"""debug helper: run work units of one harness in-process and print per-check results.
usage: dbg.py C19 C19.clicks ['{"plane":"FFP",...}'] [tier]"""
import sys, time, json, os
sys.path.insert(0, os.path.dirname(os.path.abspath(__file__))); sys.path.insert(0, os.environ.get('PYBC_REPO', '/repo'))
import warnings; warnings.filterwarnings('ignore')
from symx import runner
prop, hname = sys.argv[1], sys.argv[2]
cfg = json.loads(sys.argv[3]) if len(sys.argv) > 3 and sys.argv[3] != '-' else None
tier = sys.argv[4] if len(sys.argv) > 4 else 'quick'
hs, _ = runner.load_harnesses(prop)
h = runner.REGISTRY[hname]
cfgs = [cfg] if cfg is not None else h.configs(tier)
for c in cfgs:
    t = time.time()
    r = runner.run_unit((hname, c, tier, prop, 0))
    dt = time.time() - t
    if r.get('error'):
        print(c, 'ERROR', r['error']); continue
    print(f'{dt:6.1f}s paths={r["paths"]} cut={r["cut_kinds"]} feas={r["feas_queries"]}/{r["feas_solver_s"]:.1f}s/{r["feas_unknown"]}unk oblig={r["oblig_queries"]}/{r["oblig_solver_s"]:.1f}s cfg={c}')
    for k, v in r['checks'].items():
        print('    ', k, {kk: vv for kk, vv in v.items() if kk != 'sample'})
    for u in r['undecided'][:3]: print('     UNDECIDED', json.dumps(u, default=str)[:700])
    for u in r['candidates'][:3]: print('     CAND', json.dumps({k: u[k] for k in ('check', 'inputs', 'info')}, default=str)[:500])
