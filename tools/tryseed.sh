#!/bin/sh
# tools/tryseed.sh <ID> <n> [check args...] - apply a kept/scratch seed in its scratch worktree, run the CURRENT check against it, undo
ID="$1"; N="$2"; shift 2
W=${WTBASE:-/tmp/wt4}/$ID; S=$W/_seed/$N
[ -d "$S" ] || S=/verif/seeded/$ID-$N
cd "$W" || exit 2
git checkout -q -- . ; git apply "$S/patch.diff" || { echo "patch does not apply"; exit 2; }
cd /verif
PYBC_REPO=$W VERIF_UNIT_TIMEOUT=${VERIF_UNIT_TIMEOUT:-400} ./check ${CHECK:-$ID} "$@" 2>&1 | grep -E "^VIOLATION|^  harness|^INCONCLUSIVE|HARNESS-ERROR|Error|exit=" | cut -c1-${COLS:-330} | head -${LINES_MAX:-14}
cd "$W"; git checkout -q -- .
cd /verif; git checkout -q -- evidence 2>/dev/null
