#!/bin/sh
# tools/confirmseed.sh <ID>  - for every _seed/<n> of the scratch worktree $WTBASE/<ID>: demo on the clean tree, demo + full test-suite with the patch; result in _seed/<n>/confirm.txt
ID="$1"; W=${WTBASE:-/tmp/wt5}/$ID
cd "$W" || exit 2
for S in "$W"/_seed/*; do
  [ -f "$S/patch.diff" ] || continue
  git checkout -q -- .
  PYTHONPATH=$W /venv/bin/python "$S/demo.py" >"$S/clean.out" 2>&1; CLEAN=$?
  git apply "$S/patch.diff" || { echo "patch does not apply" > "$S/confirm.txt"; continue; }
  PYTHONPATH=$W /venv/bin/python "$S/demo.py" >"$S/patched.out" 2>&1; DEMO=$?
  T=$(PYTHONPATH=$W /venv/bin/python -m pytest -q -p no:cacheprovider --timeout=900 --continue-on-collection-errors 2>&1 | grep -E "passed|failed" | tail -1)
  git checkout -q -- .
  echo "demo_clean=$CLEAN demo_patched=$DEMO tests='$T'" > "$S/confirm.txt"
done
