#!/usr/bin/env python3
"""tools/keepseed.py <seedtest output file>...  - copy confirmed seeded changes into /verif/seeded/<ID>-<n>/ and write seeded/INDEX.md"""
import json, os, re, shutil, sys
V = os.path.dirname(os.path.dirname(os.path.abspath(__file__)))
rows = {}
idx_path = os.path.join(V, 'seeded', 'index.json')
if os.path.exists(idx_path):
    rows = json.load(open(idx_path))
for f in sys.argv[1:]:
    lines = open(f).read().splitlines()
    for i, l in enumerate(lines):
        m = re.match(r"SEED (C\d+)/(\d+) demo_clean=(\d+) demo_patched=(\d+) tests='([^']*)' check_violations=(\d+) (exit=\d)?", l)
        if not m:
            continue
        pid, n, dc, dp, tests, nv, ex = m.groups()
        nxt = []
        for x in lines[i + 1:i + 6]:
            if x.startswith('SEED '):
                break
            nxt.append(x)
        caught = sorted({re.search(r'replays/C\d+/([A-Za-z0-9_.]+)-', x).group(1) for x in nxt if x.startswith('VIOLATION') and re.search(r'replays/C\d+/([A-Za-z0-9_.]+)-', x)})
        key = f'{pid}-{n}'
        prev = rows.get(key, {})
        if tests.startswith('(tests not run)') and prev.get('tests'):
            tests = prev['tests']
        rows[key] = {'property': pid, 'n': int(n), 'demo_clean_exit': int(dc), 'demo_patched_exit': int(dp), 'tests': tests,
                     'check_violations': int(nv), 'check_exit': ex, 'caught_by': caught or prev.get('caught_by_now', []),
                     'first_result': prev.get('first_result', {'check_violations': int(nv), 'check_exit': ex})}
for key, r in sorted(rows.items()):
    pid, n = key.split('-')
    src = next((f'{b}/{pid}/_seed/{n}' for b in ('/tmp/wt', '/tmp/wt2', '/tmp/wt3', '/tmp/wt4', '/tmp/wt5', '/tmp/wt6') if os.path.isdir(f'{b}/{pid}/_seed/{n}')), '/nonexistent')
    dst = os.path.join(V, 'seeded', key)
    if not os.path.isdir(src) and os.path.isdir(dst):
        try:
            meta = json.load(open(os.path.join(dst, 'meta.json')))
            meta['our_check'].update({'violations_reported': r['check_violations'], 'exit': r['check_exit'], 'harnesses_that_reported': r['caught_by'] or meta['our_check'].get('harnesses_that_reported', [])})
            json.dump(meta, open(os.path.join(dst, 'meta.json'), 'w'), indent=1)
            r['summary'] = meta.get('summary', '')[:300]
            r['needs'] = meta.get('needs_to_manifest', '')[:300]
            if not r['caught_by']:
                r['caught_by'] = meta['our_check'].get('harnesses_that_reported', [])
        except Exception:
            pass
    if os.path.isdir(src):
        os.makedirs(dst, exist_ok=True)
        for fn in ('patch.diff', 'demo.py'):
            shutil.copy(os.path.join(src, fn), os.path.join(dst, fn))
        try:
            meta = json.load(open(os.path.join(src, 'meta.json')))
        except Exception:
            meta = {}
        meta.update({'breaks_property': pid,
                     'confirmed_by_us': {'demo exit on clean tree': r['demo_clean_exit'], 'demo exit with patch': r['demo_patched_exit'], 'test-suite with patch': r['tests'],
                                         'how': f'tools/seedtest.sh {pid} {n}: git apply in a scratch worktree of /repo HEAD, PYTHONPATH=<worktree> demo.py, full pytest run, then ./check {pid} with PYBC_REPO=<worktree>, git checkout -- .'},
                     'our_check': {'quick run': f'./check {pid}', 'violations_reported': r['check_violations'], 'exit': r['check_exit'], 'harnesses_that_reported': r['caught_by'],
                                   'first_run_before_strengthening': r['first_result']}})
        json.dump(meta, open(os.path.join(dst, 'meta.json'), 'w'), indent=1)
        r['summary'] = meta.get('summary', '')[:300]
        r['needs'] = meta.get('needs_to_manifest', '')[:300]
json.dump(rows, open(idx_path, 'w'), indent=1)
with open(os.path.join(V, 'seeded', 'INDEX.md'), 'w') as f:
    f.write('# Seeded changes written by independent sub-agents (property text + scratch worktree only)\n\n')
    f.write('| seed | what it changes | needs to manifest | tests with patch | first run of our check | now | caught by |\n|---|---|---|---|---|---|---|\n')
    for key, r in sorted(rows.items()):
        first = r['first_result']
        f.write(f"| {key} | {r.get('summary','').replace('|','/')} | {r.get('needs','').replace('|','/')} | {r['tests'].split(',')[0]} | "
                f"{'caught' if first['check_violations'] else 'MISSED'} ({first['check_exit']}) | {'caught' if r['check_violations'] else 'MISSED'} ({r['check_exit']}) | {', '.join(r['caught_by'])} |\n")
print(len(rows), 'seeds indexed')
