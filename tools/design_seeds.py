#!/usr/bin/env python3
"""tools/design_seeds.py - rewrite the seed table of DESIGN.md (between the SEEDTABLE markers) from seeded/index.json"""
import json, os, re
V = os.path.dirname(os.path.dirname(os.path.abspath(__file__)))
d = json.load(open(os.path.join(V, 'seeded', 'index.json')))
ROUND = {1: 1, 2: 1, 3: 2, 4: 2, 5: 3, 6: 3, 7: 4, 8: 4, 9: 5, 10: 5, 11: 6, 12: 6}
out = []
stats = {}
for k, r in sorted(d.items()):
    rd = ROUND.get(r['n'], 0)
    f = r['first_result']
    first = 'caught' if f['check_violations'] else ('exit 3, no VIOLATION' if (f['check_exit'] or '').endswith('3') else 'MISSED')
    now = 'caught' if r['check_violations'] else 'MISSED'
    s = stats.setdefault(rd, [0, 0, 0])
    s[0] += 1
    s[1] += first == 'caught'
    s[2] += now == 'caught'
    summ = re.sub(r'\s+', ' ', r.get('summary', '')).replace('|', '/')[:110]
    out.append(f"| {k} | {rd} | {summ}... | {first} | {now} | {', '.join(r['caught_by']) or '-'} |")
head = ['| round | changes | caught by the check as it stood when the change arrived | caught now |', '|---|---:|---:|---:|']
for rd, s in sorted(stats.items()):
    head.append(f'| {rd} | {s[0]} | {s[1]} | {s[2]} |')
tot = [sum(s[i] for s in stats.values()) for i in range(3)]
head.append(f'| all | {tot[0]} | {tot[1]} | {tot[2]} |')
table = '\n'.join(head) + '\n\n| seed | round | change | check when it arrived | now | reported by |\n|---|---|---|---|---|---|\n' + '\n'.join(out)
p = os.path.join(V, 'DESIGN.md')
s = open(p).read()
a, b = '<!-- SEEDTABLE BEGIN -->', '<!-- SEEDTABLE END -->'
i, j = s.index(a), s.index(b)
s = s[:i + len(a)] + '\n' + table + '\n' + s[j:]
open(p, 'w').write(s)
print('\n'.join(head))
