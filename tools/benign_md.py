#!/usr/bin/env python3
"""tools/benign_md.py <benign log> [meta dir base] - writes seeded/BENIGN.md from the output of tools/benign.sh runs"""
import json, os, re, sys
V = os.path.dirname(os.path.dirname(os.path.abspath(__file__)))
log = open(sys.argv[1]).read().splitlines()
base = sys.argv[2] if len(sys.argv) > 2 else '/tmp/wtb'
runs = {}
for l in log:
    m = re.match(r'BENIGN (B\d)/(\d) (C\d+) ?(exit=\d)?', l)
    if m:
        runs.setdefault((m.group(1), m.group(2)), []).append((m.group(3), m.group(4) or 'no result'))
out = ['# Behaviour-preserving changes written by independent sub-agents (digest-identical results, test-suite passes): the checks must stay quiet',
       '', 'Each change was applied in a scratch worktree and the checks it could affect were run with `tools/benign.sh` (quick tier). `exit=0` = quiet.',
       'The one `exit=3` (B2/2 C18, an inconclusive run, not an alarm) was a weakness of the regex stub, corrected (DESIGN 11a); the re-run is listed after it.',
       '', '| change | what it refactors | checks run -> exit |', '|---|---|---|']
for (g, n), rs in sorted(runs.items()):
    try:
        meta = json.load(open(f'{base}/{g}/_benign/{n}/meta.json'))
        summ = meta.get('summary', '')[:420].replace('|', '/').replace('\n', ' ')
    except Exception:
        summ = '(summary not available)'
    out.append(f'| {g}/{n} | {summ} | ' + ', '.join(f'{c} {e}' for c, e in rs) + ' |')
open(os.path.join(V, 'seeded', 'BENIGN.md'), 'w').write('\n'.join(out) + '\n')
print(len(runs), 'changes')
