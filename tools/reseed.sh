#!/bin/sh
# tools/reseed.sh <ID>...  - run the CURRENT check against every kept seeded change of the given properties (scratch worktree under $WTBASE, default /tmp/wt4)
for ID in "$@"; do
  W=${WTBASE:-/tmp/wt4}/$ID
  [ -d "$W" ] || git -C /repo worktree add -q --detach "$W" HEAD
  for S in /verif/seeded/$ID-*; do
    N=${S##*-}
    [ "$N" -ge "${SEEDS_MIN_N:-0}" ] || continue
    [ "$N" -le "${SEEDS_MAX_N:-999}" ] || continue
    cd "$W" || exit 2
    git checkout -q -- .
    PYTHONPATH=$W /venv/bin/python "$S/demo.py" >/dev/null 2>&1; CLEAN=$?
    git apply "$S/patch.diff" || { echo "SEED $ID/$N patch does not apply"; continue; }
    PYTHONPATH=$W /venv/bin/python "$S/demo.py" >/dev/null 2>&1; DEMO=$?
    cd /verif
    OUT=$(VERIF_EVIDENCE_DIR=${SCRATCH_EVIDENCE:-/tmp/verif-scratch-evidence} PYBC_REPO=$W VERIF_UNIT_TIMEOUT=${VERIF_UNIT_TIMEOUT:-400} ./check $ID 2>&1 | grep -E "^VIOLATION|^KNOWN|^INCONCLUSIVE property=$ID undecided|HARNESS-ERROR|exit=" | cut -c1-230)
    NV=$(echo "$OUT" | grep -c "^VIOLATION")
    EX=$(echo "$OUT" | grep -o "exit=[0-9]" | tail -1)
    cd "$W"; git checkout -q -- .
    echo "SEED $ID/$N demo_clean=$CLEAN demo_patched=$DEMO tests='(tests not run)' check_violations=$NV $EX"
    echo "$OUT" | grep -v "^KNOWN" | head -4
  done
done
