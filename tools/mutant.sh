#!/bin/sh
# tools/mutant.sh <file relative to repo> <python-regex-search> <replacement> <prop> [check args...]
# copies /repo's package to a scratch dir, applies one substitution, runs the check against it, removes the copy.
set -e
F="$1"; S="$2"; R="$3"; P="$4"; shift 4
D=$(mktemp -d /tmp/mut.XXXXXX)
mkdir -p "$D"; cp -r /repo/py_ballisticcalc "$D/py_ballisticcalc"; cp /repo/.pybc.toml "$D/" 2>/dev/null || true
python3 - "$D/$F" "$S" "$R" <<'PY'
import sys,re
p,s,r=sys.argv[1:4]
t=open(p).read()
n=len(re.findall(s,t))
if n!=1:
    print(f'MUTANT-ERROR: pattern matched {n} times'); sys.exit(2)
open(p,'w').write(re.sub(s,r,t,count=1))
PY
cd /verif
PYBC_REPO="$D" ./check "$P" "$@" 2>&1 | grep -E "VIOLATION|KNOWN|INCONCLUSIVE|HARNESS-ERROR|exit=" | cut -c1-260 | head -${MUT_LINES:-6}
rm -rf "$D"
