#!/bin/sh
# tools/seedtest.sh <ID> <n> [notests]  - confirm a sub-agent's seeded change in its scratch worktree and run our check against it
ID="$1"; N="$2"; W=${WTBASE:-/tmp/wt}/$ID; S=$W/_seed/$N
cd "$W" || exit 2
git checkout -q -- . ; git status --porcelain | grep -v "^??" && { echo "worktree not clean"; exit 2; }
PYTHONPATH=$W /venv/bin/python "$S/demo.py" >/tmp/seed_$ID_$N.clean.out 2>&1; CLEAN=$?
git apply "$S/patch.diff" || { echo "patch does not apply"; exit 2; }
PYTHONPATH=$W /venv/bin/python "$S/demo.py" >/tmp/seed_$ID_$N.demo.out 2>&1; DEMO=$?
if [ -f "$S/confirm.txt" ] && grep -q "tests='" "$S/confirm.txt"; then T=$(sed -n "s/.*tests='\(.*\)'.*/\1/p" "$S/confirm.txt")
elif [ "$3" != "notests" ]; then
  T=$(PYTHONPATH=$W /venv/bin/python -m pytest -q -p no:cacheprovider --timeout=900 --continue-on-collection-errors 2>&1 | grep -E "passed|failed" | tail -1)
else T="(tests not run)"; fi
cd ${VERIF_DIR:-/verif}
OUT=$(VERIF_EVIDENCE_DIR=${SCRATCH_EVIDENCE:-/tmp/verif-scratch-evidence} PYBC_REPO=$W VERIF_UNIT_TIMEOUT=${VERIF_UNIT_TIMEOUT:-400} ./check $ID 2>&1 | grep -E "^VIOLATION|^KNOWN|^INCONCLUSIVE property=$ID undecided|HARNESS-ERROR|exit=" | cut -c1-230)
NV=$(echo "$OUT" | grep -c "^VIOLATION")
EX=$(echo "$OUT" | grep -o "exit=[0-9]" | tail -1)
cd "$W"; git checkout -q -- .
echo "SEED $ID/$N demo_clean=$CLEAN demo_patched=$DEMO tests='$T' check_violations=$NV $EX"
echo "$OUT" | grep -v "^KNOWN" | head -4
