#!/bin/sh
# tools/benign.sh <group> <n> <props...> - run the CURRENT checks against a behaviour-preserving change (scratch worktree $WTB/<group>, patch _benign/<n>/patch.diff): every check must stay quiet (exit 0)
G="$1"; N="$2"; shift 2
W=${WTB:-/tmp/wtb}/$G
cd "$W" || exit 2
git checkout -q -- .
git apply "_benign/$N/patch.diff" || { echo "BENIGN $G/$N patch does not apply"; exit 2; }
cd /verif
for P in "$@"; do
  OUT=$(VERIF_EVIDENCE_DIR=${SCRATCH_EVIDENCE:-/tmp/verif-scratch-evidence} PYBC_REPO=$W VERIF_UNIT_TIMEOUT=${VERIF_UNIT_TIMEOUT:-600} ./check $P 2>&1 | grep -E "^VIOLATION|^INCONCLUSIVE|HARNESS-ERROR|exit=" | cut -c1-300)
  EX=$(echo "$OUT" | grep -o "exit=[0-9]" | tail -1)
  echo "BENIGN $G/$N $P $EX"
  [ "$EX" = "exit=0" ] || echo "$OUT" | head -6
done
cd "$W"; git checkout -q -- .
